#!/bin/sh
# usage: tools/run_mutant.sh <patch> <check-id>...   — apply a patch to /repo, run the quick checks, revert.
# Prints one line per check: CAUGHT / MISSED / ERROR. Never leaves /repo modified.
PATCH="$1"; shift
cd /repo || exit 2
if [ -n "$(git status --porcelain --untracked-files=no)" ]; then echo "repo not clean"; exit 2; fi
if ! git apply "$PATCH"; then echo "patch does not apply: $PATCH"; exit 2; fi
trap 'git -C /repo checkout -- . ' EXIT INT TERM
for id in "$@"; do
    out=$(cd /verif && VERIF_BUDGET_S=${MUTANT_BUDGET_S:-120} timeout ${MUTANT_TIMEOUT:-900} ./check "$id" --tier quick 2>&1)
    rc=$?
    if [ $rc -eq 1 ]; then
        echo "CAUGHT  $id  $(basename "$PATCH")  $(echo "$out" | grep -m1 'class:' )"
    elif [ $rc -eq 0 ]; then
        echo "MISSED  $id  $(basename "$PATCH")"
    else
        echo "ERROR($rc) $id $(basename "$PATCH")  $(echo "$out" | tail -2 | tr '\n' ' ')"
    fi
done
rm -rf /verif/replays
# leave a clean binary behind (the last build above was against the mutated tree)
git -C /repo checkout -- .
trap - EXIT INT TERM
(cd /verif/sim && cargo build --release --offline >/dev/null 2>&1)
