#!/usr/bin/env python3
"""Systematic sensitivity estimate: small syntactic mutations of the library, one at a time, in a
scratch copy of /repo and of the simulator (never /repo or /verif themselves).

For every mutant: build, run the library's own unit tests (a mutant they kill is not interesting),
then run every quick check with a reduced number of cases. Output: one JSON line per mutant in
<out>/results.jsonl and a summary at the end.

usage: mutation_sweep.py <scratch-dir> [max-mutants] [seed]
"""
import json, os, random, re, shutil, subprocess, sys, time

SCRATCH = sys.argv[1] if len(sys.argv) > 1 else "/tmp/mut"
MAXM = int(sys.argv[2]) if len(sys.argv) > 2 else 120
SEED = int(sys.argv[3]) if len(sys.argv) > 3 else 1
CHECKS = ["C02", "C04", "C05", "C06", "C07", "C08", "C09", "C10", "C11", "C15", "C16", "C17", "C19", "C22", "C23"]
CASES = {"C02": 6000, "C06": 20000, "C09": 20000, "C19": 60000}
FILES = [
    "src/stream.rs", "src/solver.rs", "src/state/mod.rs", "src/state/constraint/store.rs",
    "src/state/unification.rs", "src/state/substitution.rs", "src/state/fd.rs", "src/state/map_sum.rs",
    "src/state/reification.rs", "src/relation/diseq.rs", "src/relation/clpfd/plusfd.rs",
    "src/relation/clpfd/minusfd.rs", "src/relation/clpfd/timesfd.rs", "src/relation/clpfd/ltefd.rs",
    "src/relation/clpfd/diseqfd.rs", "src/relation/clpfd/distinctfd.rs", "src/relation/clpz/plusz.rs",
    "src/relation/clpz/timesz.rs", "src/operator/conde.rs", "src/operator/conda.rs", "src/operator/condu.rs",
    "src/operator/conj.rs", "src/operator/disj.rs", "src/operator/anyo.rs", "src/operator/project.rs",
    "src/operator/everyg.rs", "src/query.rs",
]
# (regex, replacement, label)
OPS = [
    (r" <= ", " < ", "<= to <"), (r" < ", " <= ", "< to <="), (r" >= ", " > ", ">= to >"), (r" > ", " >= ", "> to >="),
    (r" == ", " != ", "== to !="), (r" != ", " == ", "!= to =="),
    (r"\.min\(\)", ".max()", "min to max"), (r"\.max\(\)", ".min()", "max to min"),
    (r"\.rev\(\)", "", "drop rev"), (r"saturating_add", "saturating_sub", "add to sub"),
    (r"saturating_sub", "saturating_add", "sub to add"), (r" \+ 1\b", "", "drop +1"), (r" - 1\b", "", "drop -1"),
    (r" && ", " || ", "&& to ||"), (r" \|\| ", " && ", "|| to &&"),
    (r"copy_before", "drop_before", "copy_before to drop_before"), (r"drop_before", "copy_before", "drop_before to copy_before"),
    (r"\bmplus_dfs\(", "mplus(", "mplus_dfs to mplus"), (r"\bbind_dfs\(", "bind(", "bind_dfs to bind"),
    (r"\(lazy, lazy_hat\)", "(lazy_hat, lazy)", "swap lazy args"), (r"\(lazy_hat, lazy\)", "(lazy, lazy_hat)", "swap lazy args back"),
    (r"is_succeed\(\)", "is_fail()", "succeed to fail"), (r"\.is_empty\(\)", ".is_empty() == false", "negate is_empty"),
    (r"Err\(\(\)\)", "Ok(state)", "Err to Ok(state)"),
    (r"return Ok\(state\);", "return Err(());", "return Ok to Err"),
]


def sh(cmd, cwd=None, timeout=900, env=None):
    try:
        p = subprocess.run(cmd, shell=True, cwd=cwd, timeout=timeout, capture_output=True, text=True, env=env)
        return p.returncode, p.stdout + p.stderr
    except subprocess.TimeoutExpired:
        return 124, "timeout"


def setup():
    os.makedirs(SCRATCH, exist_ok=True)
    repo = os.path.join(SCRATCH, "repo")
    sim = os.path.join(SCRATCH, "sim")
    if not os.path.isdir(repo):
        sh(f"git -C /repo worktree add --detach {repo} HEAD")
    if os.path.isdir(sim):
        shutil.rmtree(sim)
    shutil.copytree("/verif/sim", sim, ignore=shutil.ignore_patterns("target"))
    toml = open(os.path.join(sim, "Cargo.toml")).read().replace('path = "/repo"', f'path = "{repo}"')
    open(os.path.join(sim, "Cargo.toml"), "w").write(toml)
    cfg = open(os.path.join(sim, ".cargo/config.toml")).read().replace('target-dir = "../target"', f'target-dir = "{SCRATCH}/target"')
    open(os.path.join(sim, ".cargo/config.toml"), "w").write(cfg)
    for d in ("findings",):
        dst = os.path.join(SCRATCH, d)
        if os.path.isdir(dst):
            shutil.rmtree(dst)
        shutil.copytree("/verif/" + d, dst)
    shutil.copy("/verif/known_findings.json", SCRATCH)
    return repo, sim


def candidates(repo):
    out = []
    for f in FILES:
        path = os.path.join(repo, f)
        if not os.path.exists(path):
            continue
        lines = open(path).read().split("\n")
        in_tests = False
        for i, line in enumerate(lines):
            if "#[cfg(test)]" in line:
                in_tests = True
            if in_tests:
                continue
            s = line.strip()
            if s.startswith("//") or s.startswith("#[") or "verif_sim" in line or "assert" in line or "panic!" in line:
                continue
            for rx, rep, label in OPS:
                for m in re.finditer(rx, line):
                    out.append((f, i, m.start(), m.end(), rep, label))
    return out


def main():
    repo, sim = setup()
    rnd = random.Random(SEED)
    cands = candidates(repo)
    rnd.shuffle(cands)
    print(f"{len(cands)} candidate mutation sites; trying up to {MAXM}", flush=True)
    env = dict(os.environ, CARGO_NET_OFFLINE="true", VERIF_DIR=SCRATCH, RUST_BACKTRACE="0")
    rc, out = sh("cargo build --release --offline", cwd=sim, timeout=1800, env=env)
    if rc != 0:
        print("baseline build failed", out[-2000:])
        return 2
    results = open(os.path.join(SCRATCH, "results.jsonl"), "a")
    stats = {"tried": 0, "no_compile": 0, "killed_by_suite": 0, "caught": 0, "survived": 0}
    for (f, i, a, b, rep, label) in cands:
        if stats["tried"] >= MAXM:
            break
        path = os.path.join(repo, f)
        orig = open(path).read()
        lines = orig.split("\n")
        lines[i] = lines[i][:a] + rep + lines[i][b:]
        open(path, "w").write("\n".join(lines))
        rec = {"file": f, "line": i + 1, "op": label, "before": orig.split("\n")[i].strip(), "after": lines[i].strip()}
        try:
            stats["tried"] += 1
            rc, out = sh(f"CARGO_TARGET_DIR={SCRATCH}/target-repo timeout 600 cargo test --offline --lib 2>&1 | tail -5", cwd=repo, timeout=700, env=env)
            if "test result: ok" not in out:
                if "error" in out and "test result" not in out:
                    stats["no_compile"] += 1
                    rec["outcome"] = "does-not-compile-or-hangs"
                else:
                    stats["killed_by_suite"] += 1
                    rec["outcome"] = "killed-by-unit-tests"
                continue
            rc, out = sh("cargo build --release --offline", cwd=sim, timeout=1800, env=env)
            if rc != 0:
                stats["no_compile"] += 1
                rec["outcome"] = "harness-does-not-compile"
                continue
            caught = []
            errors = []
            for c in CHECKS:
                n = CASES.get(c, 40000)
                e2 = dict(env, VERIF_CASES=str(n), VERIF_BUDGET_S="60")
                rc, out = sh(f"timeout 300 {SCRATCH}/target/release/pvsim check {c} --tier quick --seed {SEED}", cwd=SCRATCH, timeout=400, env=e2)
                if rc == 1:
                    m = re.search(r"class: (.*)", out)
                    caught.append({"check": c, "class": m.group(1)[:80] if m else "?"})
                elif rc != 0:
                    errors.append({"check": c, "rc": rc})
            rec["caught_by"] = caught
            rec["errors"] = errors
            if caught:
                stats["caught"] += 1
                rec["outcome"] = "caught"
            else:
                stats["survived"] += 1
                rec["outcome"] = "survived"
        finally:
            open(path, "w").write(orig)
            results.write(json.dumps(rec) + "\n")
            results.flush()
            print(json.dumps({k: rec.get(k) for k in ("file", "line", "op", "outcome")}), [c["check"] for c in rec.get("caught_by", [])], flush=True)
    print("SUMMARY", json.dumps(stats), flush=True)
    shutil.rmtree(os.path.join(SCRATCH, "replays"), ignore_errors=True)
    return 0


if __name__ == "__main__":
    sys.exit(main())
