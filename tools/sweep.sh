#!/bin/sh
# usage: tools/sweep.sh <tier> <seed-list> <check-id>...  — run checks under several seeds (meant for
# `vp run`). Builds its own binary from the snapshot's sources against /repo, and refuses to do so
# while /repo has uncommitted changes (a mutant being tried), so later rebuilds in /verif cannot
# leak into the sweep. Evidence is written into the current directory.
TIER="$1"; SEEDS="$2"; shift 2
export VERIF_DIR="$PWD"
export CARGO_NET_OFFLINE=true
mkdir -p "$VERIF_DIR/evidence"
i=0
while [ -n "$(git -C /repo status --porcelain --untracked-files=no)" ]; do
  i=$((i+1)); [ $i -gt 120 ] && { echo "repo stays dirty"; exit 2; }
  sleep 5
done
(cd "$VERIF_DIR/sim" && CARGO_TARGET_DIR="$VERIF_DIR/target" cargo build --release --offline >/dev/null 2>&1) || { echo "build failed"; exit 2; }
[ -n "$(git -C /repo status --porcelain --untracked-files=no)" ] && { echo "repo changed during the build"; exit 2; }
echo "sweep binary built from /repo $(git -C /repo rev-parse --short HEAD)"
for s in $SEEDS; do
  for id in "$@"; do
    "$VERIF_DIR/target/release/pvsim" check "$id" --tier "$TIER" --seed "$s" 2>&1 | grep -v "^VERIF_SEED"
  done
done
