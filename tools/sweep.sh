#!/bin/sh
# usage: tools/sweep.sh <tier> <seed-list> <check-id>...  — run checks under several seeds with a private
# copy of the already built binary (so that later rebuilds in /verif, e.g. against a mutated /repo, cannot
# leak into the sweep), writing evidence into the current directory (meant for `vp run`).
TIER="$1"; SEEDS="$2"; shift 2
export VERIF_DIR="$PWD"
mkdir -p "$VERIF_DIR/evidence"
[ -f "$VERIF_DIR/known_findings.json" ] || cp /verif/known_findings.json "$VERIF_DIR/"
[ -d "$VERIF_DIR/findings" ] || cp -r /verif/findings "$VERIF_DIR/"
cp /verif/target/release/pvsim "$VERIF_DIR/pvsim.snapshot" || exit 2
for s in $SEEDS; do
  for id in "$@"; do
    "$VERIF_DIR/pvsim.snapshot" check "$id" --tier "$TIER" --seed "$s" 2>&1 | grep -v "^VERIF_SEED"
  done
done
