#!/bin/sh
# Prints, per check, the event-log digest of the first N cases under 16, 4 and 1 worker threads in
# separate processes; the three must be identical (see DESIGN.md section 6).
B=/verif/target/release/pvsim; N=${1:-3000}; SEED=${2:-7}
for id in C02 C04 C05 C06 C07 C08 C09 C10 C11 C15 C16 C17 C19 C22 C23; do
  a=$(VERIF_WORKERS=16 $B selftest-determinism $id --seed $SEED --cases $N | grep DIGEST | awk '{print $NF}')
  b=$(VERIF_WORKERS=4 $B selftest-determinism $id --seed $SEED --cases $N | grep DIGEST | awk '{print $NF}')
  c=$(VERIF_WORKERS=1 $B selftest-determinism $id --seed $SEED --cases $N | grep DIGEST | awk '{print $NF}')
  echo "$id $a $b $c $([ "$a" = "$b" ] && [ "$b" = "$c" ] && echo SAME || echo DIFFERENT)"
done
