#!/bin/sh
# usage: tools/verify_seed.sh <ID> [<worktree>]  — confirm a seeded change in its scratch worktree:
# with the patch the existing suite passes and the demo fails; without it the demo passes.
ID="$1"; WT="${2:-/tmp/wt-$ID}"; OUT=/tmp/seed-out/$ID
cd "$WT" || exit 2
export CARGO_TARGET_DIR="$WT/target"
git checkout -q -- . ; rm -f tests/seed_demo.rs
git apply "$OUT/patch.diff" || { echo "patch does not apply"; exit 2; }
echo "== with patch: existing suite (expected: all ok)"
timeout 1500 cargo test --workspace --offline 2>&1 | grep -E "^test result|FAILED|panicked" | sort | uniq -c | head -6
mkdir -p tests; cp "$OUT/seed_demo.rs" tests/seed_demo.rs
echo "== with patch: demo (expected to FAIL)"
timeout 900 cargo test --offline --test seed_demo 2>&1 | grep -E "^test result|^error" | head -3
git checkout -q -- .
echo "== without patch: demo (expected to PASS)"
timeout 900 cargo test --offline --test seed_demo 2>&1 | grep -E "^test result|^error" | head -3
git apply "$OUT/patch.diff"
