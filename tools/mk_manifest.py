#!/usr/bin/env python3
"""Regenerates /verif/MANIFEST.json from the table below (run after adding or changing a check)."""
import json, os, subprocess

VERIF = os.path.dirname(os.path.dirname(os.path.abspath(__file__)))

NOTE = ("Trusted base: the oracles/reference models in /verif/sim/src (small, share no code with proto-vulcan); "
        "the cfg-gated seam in /repo/src/verif_sim.rs; the assumption that simulator-chosen iteration orders over "
        "insertion-ordered containers cover what std RandomState can produce. Seeded sampling: a clean batch is "
        "evidence, not proof.")

CHECKS = {
    "C02": dict(
        text="Seeded exploration of pure tree programs (==, !=, conde, fresh) in generated / reversed / random posting orders "
             "under simulated iteration orders of the constraint store (which of two subsuming disequalities survives, the order "
             "constraints are re-run, the order of bindings inside one disequality) and yields. Over a finite universe of ground "
             "terms the set of query assignments covered by the engine's answers (term + every reported disequality, hidden "
             "variables existential) must equal the set the program accepts, computed by brute force (or by the reference "
             "interpreter when hidden variables need witnesses). Exhaustive over atoms^nq, sampled over the rest. Every 64th case is a program written with the repository's own macros (sim/src/surface.rs) with hand-listed expected answers, so that changes above the runtime API (in macros/) are seen too.",
        design="7 (C02), 4 (R2), 1 (N1)",
        technique="deterministic simulation: seeded constraint-store iteration order + posting-order permutations, ground-instance set oracle",
    ),
    "C04": dict(
        text="Seeded exploration of terminating tree and CLP(FD) programs x K seeded permutations of every conjunction and "
             "clause list, all run under one simulated schedule (store iteration order decides which delayed constraint wakes "
             "first; yields): the answer multiset of every permutation must equal the original's and both must equal an absolute "
             "reference (reference interpreter answers compared as sets of ground instances; brute force for FD), so a "
             "disagreement names the ordering that is wrong.",
        design="7 (C04), 4 (R2, R3, R4)",
        technique="deterministic simulation: differential runs over seeded goal/clause permutations under seeded wake-up order, instance-set / brute-force oracle",
    ),
    "C10": dict(
        text="Seeded exploration of P, conde{A,B[,C]} programs whose branches post ==, !=, FD goals, domain narrowings and "
             "user-state tags on shared variables with scripted leaf suspensions between their goals (so siblings' steps "
             "interleave in many patterns), under a stateless schedule applied unchanged to every run: the multiset of (answer, "
             "user tag log) of the disjunction must equal the union of the branches run alone; a clone of the suspended stream "
             "taken mid-run must deliver exactly the original's remainder. A tenth of the tree cases read a structure built before "
             "the conde through ONE project goal placed after it (a goal object shared by the states of all branches). Isolation only fails when a sibling runs between two "
             "steps of a branch, i.e. it is a property of interleavings.",
        design="7 (C10), 4 (R4), 1 (N2, N3)",
        technique="deterministic simulation: scripted suspensions interleaving sibling branches + stream fork, differential multiset oracle",
    ),
    "C23": dict(
        text="Monitor over the union of every generator of the framework, each program run under iteration-order policies, "
             "yields and a consumer history over one Query (re-runs, interleaved iterators, drops, polling after the end) with a "
             "step budget: any unwind other than the simulator's own budget signal is a violation, reported with the panic "
             "message and location. The simulation-specific reach is the panics that need a history (second reach of a goal, "
             "second run of a query), which no single-run test meets.",
        design="7 (C23), 4 (R5)",
        technique="deterministic simulation: panic monitor over all generators under seeded schedules and consumer histories",
    ),
    "C05": dict(
        text="Seeded exploration of dfs{} programs under every leaf timing/shape, yield and reorder: an observer goal placed "
             "last inside the dfs block must see the block's answers in exactly the reference interpreter's depth-first "
             "order (also when the block is one branch of an interleaving conde), and with the exact schedule the "
             "ResultIterator order must match too on list-free programs. Exploration: the order must survive every "
             "suspension pattern of the leaves, which can only be sampled. One genuine defect of the pinned tree is a "
             "listed known finding (iterator order of dfs answers with lists). Every 64th case is a program written with the repository's own macros (sim/src/surface.rs) with hand-listed expected answers, so that changes above the runtime API (in macros/) are seen too.",
        design="7 (C05), 4 (R1)",
        technique="deterministic simulation: scripted DFS leaves + seeded yields against a reference DFS interpreter, position-by-position order oracle",
    ),
    "C07": dict(
        text="Bounded liveness under simulated leaf timing: every productive alternative of a disjunction tree is first run "
             "alone to measure the quanta T for its first <=3 answers; in the full disjunction (next to infinite producers and "
             "silent divergers) the same answers must appear within K*2^m*(T+8)+2048 scheduler quanta of the step clock hook. "
             "A starved branch never appears whatever the bound; the measured worst case (cases whose bound is not capped) uses about 15% of the bound on the unchanged tree. A wide family (flat conde of 9-11 clauses, all but the last infinite) reaches branches that sit deep in the merge tree, and loops stay inside an alternative's own program, so answers of later rounds are required too.",
        design="7 (C07), 1 (N2, N5)",
        technique="deterministic simulation: step-clock budget, scripted producers/divergers, progress-within-N-quanta oracle",
    ),
    "C08": dict(
        text="Seeded exploration of conda/condu/onceo programs whose head goals answer late, in bursts, via iterators, from dfs "
             "blocks or from never-ending producers: the engine's answer multiset must be the reference soft-cut multiset for "
             "some choice of exactly one head answer per evaluated condu/onceo (the first one wherever the head's order is "
             "deterministic). Exploration over head timing is what decides whether peek/trunc mature and cancel correctly. Every 64th case is a program written with the repository's own macros (sim/src/surface.rs) with hand-listed expected answers, so that changes above the runtime API (in macros/) are seen too.",
        design="7 (C08), 4 (R1)",
        technique="deterministic simulation: scripted head latency + cancellation, reference soft-cut interpreter with choice-function oracle",
    ),
    "C09": dict(
        text="The same program is executed under R simulated hash orders (6 quick / 16 thorough iteration-order schedules over the "
             "substitution, domain store and constraint store: exactly what 'a fresh process with a different hash seed' varies, "
             "except that a failing seed replays) and under a scripted consumer history over one Query (re-runs, interleaved "
             "iterators, drops, polling after the end). Canonical answer sequences must be identical in all of them; a None must "
             "stay None; a never-ending but productive program must deliver its first 24 answers within the step budget. One "
             "genuine defect is a listed known finding with its class excluded from generation: the order of CLP(FD) answers "
             "depends on propagation order when the program has two or more FD constraints. A consumer-versus-search family steps the engine directly (Engine::step) to see when answers mature and requires the iterator to deliver them within 4x that, next to a step that never returns.",
        design="7 (C09), 1 (N1, N3, N5)",
        technique="deterministic simulation: differential runs across seeded hash-order schedules and consumer histories, step budget for laziness",
    ),
    "C11": dict(
        text="Seeded exploration of programs in which several states reach project goals whose bodies read the projected value "
             "non-relationally and are suspended and resumed (scripted leaf latency, yields), driven by a consumer history over one "
             "long-lived Query (sequential re-runs, up to three interleaved iterators, drops half way): every exhausted iterator "
             "must return the reference interpreter's multiset (projection evaluated on the reaching state's own value) and "
             "nothing may panic. The property only fails when a sibling state or an earlier run touches the projection between "
             "two steps of a branch, which is a schedule/history dimension. Projected values are numbers, strings, lists and #[compound] "
             "terms (also compounds nested in compounds) around variables bound per state; bodies include a syntactic is-ground test. Every 64th case is a program written with the repository's own macros (sim/src/surface.rs) with hand-listed expected answers, so that changes above the runtime API (in macros/) are seen too.",
        design="7 (C11), 1 (N2, N3)",
        technique="deterministic simulation: scripted suspensions + consumer histories (restart, interleave, cancel) against a reference interpreter",
    ),
    "C15": dict(
        text="Scope-limited (see DESIGN.md 7/C15). (i) Generated programs with recursive relations whose unfoldings introduce fresh "
             "variables, several invocations alive in one conjunction, closures, under every schedule and under interleaved "
             "iterators of one Query, against the reference interpreter (new variables per unfolding); a quarter of the programs also "
             "contain a `for` over a collection with equal elements whose body picks a value for a fresh variable. (ii) A fixed corpus of "
             "13 macro-written relations (shadowing, sibling scopes, pattern arms reusing names, an enclosing name used in an arm whose sibling binds it, repeated pattern variables, "
             "recursion through proto_vulcan_closure!) compiled against the current macros at check time, compared with "
             "hand-listed answers and hand-renamed twins. (iii) The process-global variable-id counter under 2-4 real threads "
             "scheduled by shuttle (random and PCT schedulers, seed from VERIF_SEED, failing schedule persisted and replayable): "
             "no thread is ever handed the same id twice and per-thread query answers equal the single-threaded ones. Not "
             "covered: generated surface programs (compile-time).",
        design="7 (C15), 4 (R6), 1 (N3, N4)",
        technique="deterministic simulation: shuttle-controlled thread schedules over the id counter + consumer-history differential runs against a reference interpreter",
        note=NOTE + " Thread part: shuttle 0.9.3's model of std atomics/threads; a shadow manifest (/verif/shadow/proto-vulcan) builds /repo/src with the shuttle dependency.",
    ),
    "C16": dict(
        text="Seeded exploration of CLP(FD) programs x constraint re-run / labeling orders: the store containers are replaced "
             "by simulator-ordered ones, so the order in which constraints wake up, domains move between variables and "
             "hidden variables are labeled is a function of the seed (identity, reverse, rotate, keyed, stable, fresh "
             "policies). Every answer must be ground and be the projection of an assignment that brute force finds "
             "satisfying. Exploration: propagation order is the dimension unit tests cannot reach and it can only be sampled.",
        design="7 (C16/C17), 4 (R3), 1 (N1)",
        technique="deterministic simulation: seeded constraint wake-up/labeling order (container seam) + yields, brute-force soundness oracle",
    ),
    "C17": dict(
        text="Same runs as C16, completeness clause: the multiset of query projections returned must equal the brute-force "
             "multiset (every solution exactly once per disjunct), under every simulated propagation/labeling order. "
             "Query terms include #[compound] terms of FD variables around, inside and next to lists. One case in six runs as the body of a dfs block (depth-first conde, bind_dfs).",
        design="7 (C16/C17), 4 (R3), 1 (N1)",
        technique="deterministic simulation: seeded constraint wake-up/labeling order (container seam) + yields, brute-force completeness/multiplicity oracle",
    ),
    "C19": dict(
        text="Seeded exploration of plusz/timesz conjunctions in every posting order under simulated wake-up orders of the "
             "pending constraints: final operand values must satisfy integer arithmetic (all ground -> equation holds; two "
             "ground -> third bound unless every integer works), a failing program must have no solution in a brute-force "
             "window, never a panic. The order dependence is N1 (several pending constraints woken by one binding); the rest "
             "of the property is input-driven and is sampled by the same generator. A third of the programs bind a variable through "
             "the clauses of a conde (choice bindings: constraints posted before it are resumed once per branch; every answer must "
             "lie on one path and every path without an answer must be unsolvable), a quarter post disequalities (some redundant, "
             "so the store normalises while Z constraints wait in it), one case in eight runs inside a dfs block.",
        design="7 (C19), 1 (N1)",
        technique="deterministic simulation: seeded wake-up order of pending constraints + posting-order permutations, integer-arithmetic oracle",
    ),
    "C22": dict(
        text="Seeded exploration of eq/diseq and CLP(FD) programs run with an instrumented User type: probes between goals and an "
             "observer at the end read, in whatever state reaches them, the with_constraint/take_constraint counters against the "
             "store size, check every process_extension argument against the substitution, and compare each branch's tag log, "
             "process_extension call count and binding count with the reference interpreter's own root-to-answer path. Which "
             "constraints normalisation drops and which histories exist depend on store iteration order and on interleaving, "
             "which the simulator chooses.",
        design="7 (C22), 4 (R5), 1 (N1, N2)",
        technique="deterministic simulation: instrumented User hooks as invariant monitors at probe points under seeded store order and yields",
    ),
    "C06": dict(
        text="Seeded exploration of (search program x leaf timing script x iteration-order policy x yield sites): on finite "
             "trees the interleaving answer multiset must equal an independent reference interpreter and the same program "
             "under dfs{}; on infinite programs every answer of a bounded prefix must be an answer per the reference. "
             "Exploration is the right level: the property quantifies over all programs and all suspension timings of "
             "their leaves, which can only be sampled. Every 64th case is a program written with the repository's own macros (sim/src/surface.rs) with hand-listed expected answers, so that changes above the runtime API (in macros/) are seen too.",
        design="7 (C06), 4 (R1)",
        technique="deterministic simulation: scripted leaf goals + seeded yields/reorders against a reference interpreter, multiset oracle",
    ),
}

NOT_APPLICABLE = {
    "C01": "pure function of two terms and a substitution; no schedule, fault or history enters unify_rec/walk/occurs_check (DESIGN.md section 8)",
    "C03": "pure function of the final state (walk_star, reify, anyvars, relevant); no clause varies with a schedule (DESIGN.md section 8)",
    "C12": "program equivalence; Everyg::solve has no schedule-dependent behaviour (for is part of the C06 workload grammar)",
    "C13": "compile-time macro expansion of generated surface syntax: needs generate-compile-compare (translation validation), not simulation",
    "C14": "compile-time macro expansion of generated surface syntax: translation validation, not simulation",
    "C18": "pure data-structure algebra over FiniteDomain; nothing to schedule or fault",
    "C20": "pure function of terms; no schedule or fault",
    "C21": "pure function of terms; no schedule or fault",
    "C24": "each library relation is a pure relation between its arguments; bounded prefixes of infinite modes rely on C07",
}

PENDING_REASON = "simulation target per DESIGN.md section 7, but its check is not built yet; not claimed until it is"


def main():
    props = [json.loads(l)["id"] for l in open(os.path.join(VERIF, "properties.jsonl"))]
    hooks = subprocess.run(
        ["git", "-C", "/repo", "log", "--format=%H %s", "--grep=^verif hook"],
        capture_output=True, text=True).stdout.strip().splitlines()
    checks = []
    for pid in props:
        if pid in CHECKS:
            c = CHECKS[pid]
            checks.append({
                "property_id": pid,
                "quick_cmd": f"./check {pid} --tier quick",
                "thorough_cmd": f"./check {pid} --tier thorough",
                "evidence_file": f"/verif/evidence/{pid}.json",
                "replay_cmd_template": f"./check {pid} --replay {{path}}",
                "engine": "pvsim",
                "level_claimed": {"category": "exploration", "text": c["text"], "design_ref": c["design"]},
                "level_note": c.get("note", NOTE),
                "technique": c["technique"],
            })
    na = []
    for pid in props:
        if pid in CHECKS:
            continue
        na.append({"property_id": pid, "reason": NOT_APPLICABLE.get(pid, PENDING_REASON)})
    manifest = {
        "version": 1,
        "setup_cmd": "cd /verif/sim && CARGO_NET_OFFLINE=true cargo build --release --offline && cd /verif/threads && CARGO_NET_OFFLINE=true cargo build --release --offline",
        "hooks": {
            "guard": "--cfg terohuttunen_proto_vulcan_verif (plus --cfg terohuttunen_proto_vulcan_verif_shuttle for the thread seam H6, only ever set together with the first, only by /verif/threads)",
            "enable": "RUSTFLAGS/--cfg terohuttunen_proto_vulcan_verif via /verif/sim/.cargo/config.toml (build.rustflags); proto-vulcan is a path dependency on /repo, so every check rebuilds it from the working tree",
            "baseline_off_cmd": "cd /repo && cargo test --workspace --no-fail-fast --offline",
            "source_commits": [h.split()[0] for h in hooks],
            "add_only": True,
        },
        "engines": [
            {"name": "pvsim", "path": "/verif/sim", "serves_properties": sorted(CHECKS.keys()),
             "kind_free_text": "deterministic simulator: seeded generators, SimDriver (iteration order, step clock, yields), scripted leaf goals and consumers, reference models, minimiser, replay"},
        ],
        "checks": checks,
        "not_applicable": na,
        "notes": "See DESIGN.md. Every check accepts VERIF_SEED (default 20260921) and VERIF_TIER; exit 0 held, 1 violation (with replay file), 2 harness/build error.",
    }
    with open(os.path.join(VERIF, "MANIFEST.json"), "w") as f:
        json.dump(manifest, f, indent=1)
        f.write("\n")


if __name__ == "__main__":
    main()
