//! pvsim — deterministic simulation of proto-vulcan.
//!
//!   pvsim check <ID> [--tier quick|thorough] [--seed N]
//!   pvsim replay <ID> <file>
//!   pvsim gen <ID> <index> [--seed N] [--tier ..]     (print one generated case)
//!   pvsim runcase <ID> <index> [--seed N] [--tier ..] (run one generated case; used by the supervisor)
//!   pvsim runseq <ID> <first> <last> [--seed N] [--tier ..] (run cases first..=last on one thread)
//!   pvsim selftest-determinism <ID> [--cases K]
//!
//! `check` and `replay` run under a supervisor: the work happens in a child process, so that a
//! crash the panic machinery cannot catch (stack overflow on a cyclic term, a double panic, an
//! abort) is still reported as a violation, not as a dead harness. A failure that only shows up
//! after other cases ran in the same process (process-global state: the variable-id counter) is
//! reported as a failing *sequence* of cases, replayed on one thread of a fresh process.
#![recursion_limit = "512"]
mod ast;
mod builder;
mod checks;
mod classes;
mod cmpd;
mod consumer;
mod corpus;
mod driver;
mod engine;
mod findings;
mod framework;
mod gen_fd;
mod gen_search;
mod gen_tree;
mod probes;
mod r2;
mod refint;
mod rng;
mod show;
mod shrink;
mod simuser;
mod statedrv;
mod surface;
mod valid;

use framework::{Check, Tier};
use std::process::Command;

const DEFAULT_SEED: u64 = 20260921;

fn arg_after(args: &[String], flag: &str) -> Option<String> {
    args.iter().position(|a| a == flag).and_then(|i| args.get(i + 1).cloned())
}

fn tier_name(t: Tier) -> &'static str {
    match t {
        Tier::Quick => "quick",
        Tier::Thorough => "thorough",
    }
}

struct ChildOut {
    code: Option<i32>,
    how: String,
    stdout: String,
}

/// Run this binary again as a child; `code` is None when a signal killed it.
fn run_child(argv: &[String], capture: bool) -> ChildOut {
    use std::os::unix::process::ExitStatusExt;
    let exe = std::env::current_exe().expect("current_exe");
    let mut cmd = Command::new(exe);
    cmd.args(argv).env("PVSIM_CHILD", "1");
    let (status, stdout) = if capture {
        match cmd.output() {
            Ok(o) => (Ok(o.status), String::from_utf8_lossy(&o.stdout).to_string()),
            Err(e) => (Err(e), String::new()),
        }
    } else {
        (cmd.status(), String::new())
    };
    match status {
        Ok(st) => {
            let how = match st.signal() {
                Some(sig) => format!("killed by signal {}", sig),
                None => format!("exit code {:?}", st.code()),
            };
            ChildOut { code: st.code(), how, stdout }
        }
        Err(e) => ChildOut { code: Some(2), how: format!("could not start child: {}", e), stdout },
    }
}

/// Run this binary again as a child under a watchdog: the child is killed when the in-flight file
/// has not changed for `stall_s` seconds (every worker is stuck or waiting for a stuck one), or
/// after `abs_s` seconds altogether. A killed child looks like a crash to the caller, which then
/// looks for the single case that does not come back. This is what turns a search step that
/// loops without ever reaching one of the driver's hooks into a reported violation instead of a
/// check that never ends.
fn run_child_watched(argv: &[String], inflight: Option<&str>, stall_s: u64, abs_s: Option<u64>) -> ChildOut {
    use std::os::unix::process::ExitStatusExt;
    let exe = std::env::current_exe().expect("current_exe");
    let mut cmd = Command::new(exe);
    cmd.args(argv).env("PVSIM_CHILD", "1");
    let mut child = match cmd.spawn() {
        Ok(c) => c,
        Err(e) => return ChildOut { code: Some(2), how: format!("could not start child: {}", e), stdout: String::new() },
    };
    let started = std::time::Instant::now();
    let mut last_change = std::time::Instant::now();
    let mut last_seen: Vec<u8> = vec![];
    loop {
        match child.try_wait() {
            Ok(Some(st)) => {
                let how = match st.signal() {
                    Some(sig) => format!("killed by signal {}", sig),
                    None => format!("exit code {:?}", st.code()),
                };
                return ChildOut { code: st.code(), how, stdout: String::new() };
            }
            Ok(None) => {}
            Err(e) => return ChildOut { code: Some(2), how: format!("wait failed: {}", e), stdout: String::new() },
        }
        std::thread::sleep(std::time::Duration::from_millis(250));
        if let Some(p) = inflight {
            if let Ok(bytes) = std::fs::read(p) {
                if bytes != last_seen {
                    last_seen = bytes;
                    last_change = std::time::Instant::now();
                }
            }
        }
        let stalled = inflight.is_some() && last_change.elapsed().as_secs() > stall_s;
        let too_long = abs_s.map(|s| started.elapsed().as_secs() > s).unwrap_or(false);
        if stalled || too_long {
            let _ = child.kill();
            let _ = child.wait();
            let how = if stalled {
                format!("no case finished for {} s: a case does not return (hang)", stall_s)
            } else {
                format!("no result within {} s: the case does not return (hang)", abs_s.unwrap_or(0))
            };
            return ChildOut { code: None, how, stdout: String::new() };
        }
    }
}

fn is_crash(code: Option<i32>) -> bool {
    !matches!(code, Some(0) | Some(1) | Some(2) | Some(3))
}

fn common_flags(seed: u64, tier: Tier) -> Vec<String> {
    vec!["--seed".into(), seed.to_string(), "--tier".into(), tier_name(tier).into()]
}

enum SeqOutcome {
    Clean,
    /// (index at which it failed, description)
    Failed(u64, String),
}

fn run_seq_child(check: &'static dyn Check, verif_dir: &str, seed: u64, tier: Tier, first: u64, last: u64) -> SeqOutcome {
    let inflight = framework::inflight_path(verif_dir, &format!("{}-seq", check.id()));
    let _ = std::fs::remove_file(&inflight);
    let mut argv: Vec<String> = vec!["runseq".into(), check.id().into(), first.to_string(), last.to_string()];
    argv.extend(common_flags(seed, tier));
    let out = run_child(&argv, true);
    if is_crash(out.code) {
        let idx = framework::read_inflight(&inflight).into_iter().next().unwrap_or(last);
        return SeqOutcome::Failed(idx, format!("crash ({})", out.how));
    }
    if out.code == Some(1) {
        for line in out.stdout.lines() {
            if let Some(rest) = line.strip_prefix("SEQ-VIOLATION index=") {
                let mut parts = rest.splitn(2, ' ');
                let idx = parts.next().and_then(|s| s.parse::<u64>().ok()).unwrap_or(last);
                return SeqOutcome::Failed(idx, parts.next().unwrap_or("").to_string());
            }
        }
    }
    SeqOutcome::Clean
}

/// Look for a sequence of cases that fails when run on one thread of a fresh process; report it.
fn sequence_search(check: &'static dyn Check, verif_dir: &str, seed: u64, tier: Tier, why: &str) -> i32 {
    let total = check.cases(tier) as u64;
    let span = total.min(60_000);
    println!("note: {}: searching for a failing sequence of cases (one thread, fresh process)", why);
    let (last, what) = match run_seq_child(check, verif_dir, seed, tier, 0, span - 1) {
        SeqOutcome::Clean => {
            eprintln!("harness error: {} and no sequence of the first {} cases reproduces it", why, span);
            return 2;
        }
        SeqOutcome::Failed(i, w) => (i, w),
    };
    // shorten from the front: the largest `first` for which first..=last still fails
    let started = std::time::Instant::now();
    let (mut lo, mut hi) = (0u64, last);
    while lo < hi && started.elapsed().as_secs() < 240 {
        let mid = (lo + hi + 1) / 2;
        match run_seq_child(check, verif_dir, seed, tier, mid, last) {
            SeqOutcome::Failed(i, _) if i == last => lo = mid,
            _ => hi = mid - 1,
        }
    }
    let path = framework::write_sequence_replay(check, verif_dir, seed, tier_name(tier), lo, last, &what);
    println!("VIOLATION property={} replay={}", check.id(), path);
    println!("  class: history-dependent failure: {}", what);
    println!(
        "  detail: cases {}..={} of seed {} run one after the other on one thread of a fresh process fail at the last one; it passes on its own",
        lo, last, seed
    );
    let case = check.generate(seed, last, tier);
    println!("  program (last case): {}", show::program(&case.program));
    1
}

fn main() {
    let args: Vec<String> = std::env::args().collect();
    if args.len() < 3 {
        eprintln!("usage: pvsim check|replay|gen|runcase|runseq|selftest-determinism <ID> ...");
        std::process::exit(2);
    }
    engine::install_panic_hook();
    let verif_dir = std::env::var("VERIF_DIR").unwrap_or_else(|_| "/verif".to_string());
    let seed: u64 = arg_after(&args, "--seed")
        .or_else(|| std::env::var("VERIF_SEED").ok())
        .and_then(|s| s.trim().parse::<u64>().ok())
        .unwrap_or(DEFAULT_SEED);
    let tier = match arg_after(&args, "--tier")
        .or_else(|| std::env::var("VERIF_TIER").ok())
        .as_deref()
    {
        Some("thorough") => Tier::Thorough,
        _ => Tier::Quick,
    };
    let check = match checks::by_id(&args[2]) {
        Some(c) => c,
        None => {
            eprintln!("harness error: unknown check {}", args[2]);
            std::process::exit(2);
        }
    };
    let child = std::env::var("PVSIM_CHILD").is_ok();
    let code = match args[1].as_str() {
        "check" if !child => {
            println!("VERIF_SEED={} check={} tier={:?}", seed, check.id(), tier);
            let inflight = framework::inflight_path(&verif_dir, check.id());
            let _ = std::fs::remove_file(&inflight);
            let out = run_child_watched(&args[1..].to_vec(), Some(&inflight), 300, None);
            if out.code == Some(3) {
                sequence_search(check, &verif_dir, seed, tier, "a violation does not reproduce in isolation")
            } else if !is_crash(out.code) {
                out.code.unwrap_or(2)
            } else {
                // the child died: is there a generated case that kills a process on its own?
                let candidates = framework::read_inflight(&inflight);
                let mut reported = false;
                for idx in candidates {
                    let mut sub: Vec<String> = vec!["runcase".into(), check.id().into(), idx.to_string()];
                    sub.extend(common_flags(seed, tier));
                    let o2 = run_child_watched(&sub, None, 0, Some(180));
                    if is_crash(o2.code) {
                        let case = check.generate(seed, idx, tier);
                        let path = framework::write_crash_replay(check, &verif_dir, seed, idx, &case, &o2.how);
                        println!("VIOLATION property={} replay={}", check.id(), path);
                        println!("  class: crash ({})", o2.how);
                        println!("  detail: the process running this case does not survive it (stack overflow, abort or double panic)");
                        println!("  program: {}", show::program(&case.program));
                        reported = true;
                        break;
                    }
                }
                if reported {
                    1
                } else {
                    sequence_search(
                        check,
                        &verif_dir,
                        seed,
                        tier,
                        &format!("the exploration process died ({}) and no single case reproduces it", out.how),
                    )
                }
            }
        }
        "check" => framework::explore(check, seed, tier, &verif_dir).exit_code,
        "replay" if !child => {
            println!("VERIF_SEED={} check={} tier={:?}", seed, check.id(), tier);
            let path = args.get(3).cloned().unwrap_or_default();
            if let Some((s, t, first, last)) = framework::load_sequence(&path) {
                let t = if t == "thorough" { Tier::Thorough } else { Tier::Quick };
                match run_seq_child(check, &verif_dir, s, t, first, last) {
                    SeqOutcome::Failed(i, what) => {
                        println!("VIOLATION property={} replay={}", check.id(), path);
                        println!("  class: history-dependent failure: {} (at case {})", what, i);
                        1
                    }
                    SeqOutcome::Clean => {
                        println!("replay of {} passes on this tree", path);
                        0
                    }
                }
            } else {
                let out = run_child_watched(&args[1..].to_vec(), None, 0, Some(300));
                if is_crash(out.code) {
                    println!("VIOLATION property={} replay={}", check.id(), path);
                    println!("  class: crash ({})", out.how);
                    1
                } else {
                    out.code.unwrap_or(2)
                }
            }
        }
        "replay" => match args.get(3) {
            Some(path) => framework::replay(check, path),
            None => 2,
        },
        "runcase" => {
            let index: u64 = args.get(3).and_then(|s| s.parse().ok()).unwrap_or(0);
            let case = check.generate(seed, index, tier);
            let v = framework::on_big_stack(move || check.run(&case).verdict);
            match v {
                framework::Verdict::Violation { .. } => 1,
                _ => 0,
            }
        }
        "runseq" => {
            let first: u64 = args.get(3).and_then(|s| s.parse().ok()).unwrap_or(0);
            let last: u64 = args.get(4).and_then(|s| s.parse().ok()).unwrap_or(0);
            let vd = verif_dir.clone();
            framework::on_big_stack(move || framework::run_sequence(check, &vd, seed, tier, first, last))
        }
        "gen" => {
            let index: u64 = args.get(3).and_then(|s| s.parse().ok()).unwrap_or(0);
            let case = check.generate(seed, index, tier);
            println!("{}", show::program(&case.program));
            println!("{}", serde_json::to_string_pretty(&case).unwrap());
            0
        }
        "selftest-determinism" => {
            let n: u64 = arg_after(&args, "--cases").and_then(|s| s.parse().ok()).unwrap_or(2000);
            framework::determinism_digest(check, seed, tier, n);
            0
        }
        _ => 2,
    };
    std::process::exit(code);
}
