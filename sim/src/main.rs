//! pvsim — deterministic simulation of proto-vulcan.
//!
//!   pvsim check <ID> [--tier quick|thorough] [--seed N]
//!   pvsim replay <ID> <file>
//!   pvsim gen <ID> <index> [--seed N] [--tier ..]     (print one generated case)
//!   pvsim selftest-determinism <ID> [--seeds K]
mod ast;
mod builder;
mod checks;
mod classes;
mod consumer;
mod corpus;
mod gen_fd;
mod driver;
mod engine;
mod findings;
mod framework;
mod gen_search;
mod gen_tree;
mod r2;
mod probes;
mod refint;
mod rng;
mod show;
mod shrink;
mod simuser;
mod statedrv;
mod valid;

use framework::Tier;

const DEFAULT_SEED: u64 = 20260921;

fn arg_after(args: &[String], flag: &str) -> Option<String> {
    args.iter().position(|a| a == flag).and_then(|i| args.get(i + 1).cloned())
}

fn main() {
    let args: Vec<String> = std::env::args().collect();
    if args.len() < 3 {
        eprintln!("usage: pvsim check|replay|gen|selftest-determinism <ID> ...");
        std::process::exit(2);
    }
    engine::install_panic_hook();
    let verif_dir = std::env::var("VERIF_DIR").unwrap_or_else(|_| "/verif".to_string());
    let seed: u64 = arg_after(&args, "--seed")
        .or_else(|| std::env::var("VERIF_SEED").ok())
        .and_then(|s| s.trim().parse::<u64>().ok())
        .unwrap_or(DEFAULT_SEED);
    let tier = match arg_after(&args, "--tier")
        .or_else(|| std::env::var("VERIF_TIER").ok())
        .as_deref()
    {
        Some("thorough") => Tier::Thorough,
        _ => Tier::Quick,
    };
    let check = match checks::by_id(&args[2]) {
        Some(c) => c,
        None => {
            eprintln!("harness error: unknown check {}", args[2]);
            std::process::exit(2);
        }
    };
    println!("VERIF_SEED={} check={} tier={:?}", seed, check.id(), tier);
    let code = match args[1].as_str() {
        "check" => framework::explore(check, seed, tier, &verif_dir).exit_code,
        "replay" => match args.get(3) {
            Some(path) => framework::replay(check, path),
            None => 2,
        },
        "gen" => {
            let index: u64 = args.get(3).and_then(|s| s.parse().ok()).unwrap_or(0);
            let case = check.generate(seed, index, tier);
            println!("{}", show::program(&case.program));
            println!("{}", serde_json::to_string_pretty(&case).unwrap());
            0
        }
        "selftest-determinism" => {
            let n: u64 = arg_after(&args, "--cases").and_then(|s| s.parse().ok()).unwrap_or(2000);
            framework::determinism_digest(check, seed, tier, n);
            0
        }
        _ => 2,
    };
    std::process::exit(code);
}
