//! Simulated clients: scripted histories over the iterators of one long-lived `Query`.
use crate::ast::*;
use crate::builder::{build_query, PQuery};
use crate::driver::{Handle, SimCfg, Stats};
use crate::engine::{canon_row, EAnswer, End};
use crate::rng::Rng;
use crate::simuser::*;
use serde::{Deserialize, Serialize};

#[derive(Clone, Copy, Debug, PartialEq, Eq, Hash, Serialize, Deserialize)]
pub enum Op {
    /// `query.run()`: a new iterator (numbered in creation order)
    New,
    /// `next()` on iterator i (ignored if it does not exist or was dropped)
    Next(u32),
    /// drop iterator i half way (cancellation)
    Drop(u32),
}

#[derive(Clone, Debug, Default)]
pub struct IterLog {
    pub answers: Vec<EAnswer>,
    /// `next()` returned None at least once
    pub ended: bool,
    /// number of `next()` calls made after the first None
    pub polls_after_end: u32,
    /// a `Some` was returned after a None (violates fusedness)
    pub some_after_none: bool,
    pub dropped: bool,
}

pub struct ConsumerOut {
    pub iters: Vec<IterLog>,
    pub end: End,
    pub stats: Stats,
}

/// Run a consumer script over one query built from `p`.
pub fn run_script(p: &Program, cfg: &SimCfg, script: &[Op]) -> ConsumerOut {
    let handle = Handle::install(cfg, false);
    let h2 = handle.clone();
    let mut logs: Vec<IterLog> = vec![];
    let res = std::panic::catch_unwind(std::panic::AssertUnwindSafe(|| {
        let q: PQuery = build_query(p);
        let mut iters: Vec<Option<proto_vulcan::query::ResultIterator<crate::builder::Row, SimUser, Eng>>> = vec![];
        for op in script {
            match op {
                Op::New => {
                    iters.push(Some(q.run_with_user(SimUser::default(), ())));
                    logs.push(IterLog::default());
                }
                Op::Next(i) => {
                    let i = *i as usize;
                    if let Some(Some(it)) = iters.get_mut(i) {
                        let r = it.next();
                        let log = &mut logs[i];
                        match r {
                            Some(row) => {
                                h2.set_armed(false);
                                let a = canon_row(&row);
                                h2.set_armed(true);
                                if log.ended {
                                    log.some_after_none = true;
                                }
                                log.answers.push(a);
                            }
                            None => {
                                if log.ended {
                                    log.polls_after_end += 1;
                                }
                                log.ended = true;
                            }
                        }
                    }
                }
                Op::Drop(i) => {
                    let i = *i as usize;
                    if let Some(slot) = iters.get_mut(i) {
                        if slot.is_some() {
                            *slot = None;
                            logs[i].dropped = true;
                        }
                    }
                }
            }
        }
    }));
    let end = match res {
        Ok(()) => End::Limit,
        Err(payload) => crate::engine::classify_unwind_pub(payload),
    };
    let stats = handle.finish();
    ConsumerOut { iters: logs, end, stats }
}

/// A random consumer script: up to `max_iters` iterators, each polled until exhaustion (and a bit
/// beyond), possibly interleaved, possibly dropped half way, possibly restarted.
pub fn gen_script(r: &mut Rng, max_iters: usize, max_answers: usize) -> Vec<Op> {
    let n = 1 + r.below(max_iters);
    let mut script = vec![];
    let interleave = r.chance(1, 2);
    if interleave {
        for _ in 0..n {
            script.push(Op::New);
        }
        let total = n * (max_answers + 3);
        for _ in 0..total {
            script.push(Op::Next(r.below(n) as u32));
            if r.chance(1, 40) {
                script.push(Op::Drop(r.below(n) as u32));
            }
        }
        // drain what is left, then poll after the end
        for i in 0..n {
            for _ in 0..(max_answers + 3) {
                script.push(Op::Next(i as u32));
            }
        }
    } else {
        for i in 0..n {
            script.push(Op::New);
            let k = if r.chance(1, 4) { r.below(max_answers + 1) } else { max_answers + 3 };
            for _ in 0..k {
                script.push(Op::Next(i as u32));
            }
            if r.chance(1, 3) {
                script.push(Op::Drop(i as u32));
            }
        }
    }
    script
}
