//! Running a program on the real engine under a simulated schedule, and canonicalising what
//! comes back.
use crate::ast::*;
use crate::builder::{build_query, check_user_invariants, PQuery, Row};
use crate::driver::{Handle, SimCfg, Stats};
use crate::simuser::*;
use proto_vulcan::lterm::{LTermInner, VarID};
use proto_vulcan::lvalue::LValue;
use proto_vulcan::relation::diseq::DisequalityConstraint;
use proto_vulcan::verif_sim::BudgetExceeded;
use std::cell::RefCell;
use std::collections::HashMap;
use std::panic::{catch_unwind, AssertUnwindSafe};

/// One engine answer in canonical form.
#[derive(Clone, Debug, PartialEq, Eq, PartialOrd, Ord, Hash, serde::Serialize, serde::Deserialize)]
pub struct EAnswer {
    /// list of the query variables' values; reified variables are `Any(k)` numbered by first
    /// occurrence
    pub term: T,
    /// reported disequality constraints (the whole reified store, `LResult.1`); variables that
    /// are not reified (hidden) are `V(k)` numbered canonically
    pub diseqs: Vec<Vec<(T, T)>>,
}

#[derive(Clone, Debug, PartialEq, Eq)]
pub enum End {
    /// iterator returned None
    Exhausted,
    /// harness stopped asking
    Limit,
    /// quanta budget exhausted
    Budget,
    /// work cap exhausted before the quanta budget
    WorkCap,
    Panic(PanicInfo),
}

#[derive(Clone, Debug, PartialEq, Eq)]
pub struct PanicInfo {
    pub message: String,
    pub location: String,
}

thread_local! {
    static LAST_PANIC: RefCell<Option<PanicInfo>> = RefCell::new(None);
}

/// Install a process-wide panic hook that records instead of printing.
pub fn install_panic_hook() {
    std::panic::set_hook(Box::new(|info| {
        if info.payload().downcast_ref::<BudgetExceeded>().is_some() {
            return;
        }
        let message = if let Some(s) = info.payload().downcast_ref::<&str>() {
            s.to_string()
        } else if let Some(s) = info.payload().downcast_ref::<String>() {
            s.clone()
        } else {
            "<non-string panic payload>".to_string()
        };
        let location = match info.location() {
            Some(l) => {
                let f = l.file();
                let short = match f.rfind("/src/") {
                    Some(i) => &f[i + 1..],
                    None => f,
                };
                format!("{}:{}", short, l.line())
            }
            None => "<unknown>".to_string(),
        };
        LAST_PANIC.with(|p| *p.borrow_mut() = Some(PanicInfo { message, location }));
    }));
}

pub fn classify_unwind_pub(payload: Box<dyn std::any::Any + Send>) -> End {
    classify_unwind(payload)
}

fn classify_unwind(payload: Box<dyn std::any::Any + Send>) -> End {
    if let Some(b) = payload.downcast_ref::<BudgetExceeded>() {
        if b.work_cap {
            End::WorkCap
        } else {
            End::Budget
        }
    } else {
        let info = LAST_PANIC.with(|p| p.borrow_mut().take()).unwrap_or(PanicInfo {
            message: "<unrecorded panic>".to_string(),
            location: "<unknown>".to_string(),
        });
        End::Panic(info)
    }
}

struct Namer {
    any: HashMap<VarID, u32>,
    hidden: HashMap<VarID, u32>,
}

const HIDDEN_MARK: u32 = u32::MAX;

impl Namer {
    fn new() -> Namer {
        Namer {
            any: HashMap::new(),
            hidden: HashMap::new(),
        }
    }

    /// Every variable, reified or not, becomes `Any(k)` by first occurrence.
    fn conv_all_any(&mut self, t: &PTerm) -> T {
        match t.as_ref() {
            LTermInner::Cons(h, tl) => {
                let h2 = self.conv_all_any(h);
                let t2 = self.conv_all_any(tl);
                T::cons(h2, t2)
            }
            LTermInner::Var(id, _) => {
                let n = self.any.len() as u32;
                T::Any(*self.any.entry(*id).or_insert(n))
            }
            LTermInner::Compound(_) => match crate::cmpd::parts(t) {
                Some((k, fields)) if fields.len() == 2 => {
                    let a = self.conv_all_any(&fields[0]);
                    let b = self.conv_all_any(&fields[1]);
                    T::cmp(k, a, b)
                }
                _ => T::S("<compound>".to_string()),
            },
            _ => self.conv(t, false, false),
        }
    }

    /// Convert; `assign` decides whether unseen variables get names (true) or a marker.
    fn conv(&mut self, t: &PTerm, name_any: bool, name_hidden: bool) -> T {
        match t.as_ref() {
            LTermInner::Val(LValue::Number(n)) => T::I(*n as i64),
            LTermInner::Val(LValue::Bool(b)) => T::B(*b),
            LTermInner::Val(LValue::String(s)) => T::S(s.clone()),
            LTermInner::Val(LValue::Char(c)) => T::S(format!("char:{}", c)),
            LTermInner::Empty => T::Nil,
            LTermInner::Cons(h, tl) => {
                let h2 = self.conv(h, name_any, name_hidden);
                let t2 = self.conv(tl, name_any, name_hidden);
                T::cons(h2, t2)
            }
            LTermInner::Var(id, _name) => {
                if let Some(k) = self.any.get(id) {
                    T::Any(*k)
                } else if t.is_any() && name_any {
                    let k = self.any.len() as u32;
                    self.any.insert(*id, k);
                    T::Any(k)
                } else if let Some(k) = self.hidden.get(id) {
                    T::V(*k)
                } else if name_hidden {
                    let k = self.hidden.len() as u32;
                    self.hidden.insert(*id, k);
                    T::V(k)
                } else {
                    T::V(HIDDEN_MARK)
                }
            }
            LTermInner::User(_) => T::S("<user>".to_string()),
            LTermInner::Projection(_) => T::S("<projection>".to_string()),
            LTermInner::Compound(_) => match crate::cmpd::parts(t) {
                Some((k, fields)) if fields.len() == 2 => {
                    let a = self.conv(&fields[0], name_any, name_hidden);
                    let b = self.conv(&fields[1], name_any, name_hidden);
                    T::cmp(k, a, b)
                }
                _ => T::S("<compound>".to_string()),
            },
        }
    }
}

/// Canonical form of a single term (variables numbered by first occurrence).
pub fn canon_term(t: &PTerm) -> T {
    let mut namer = Namer::new();
    namer.conv_all_any(t)
}

/// Canonical form of one result row.
pub fn canon_row(row: &Row) -> EAnswer {
    let mut namer = Namer::new();
    let vals: Vec<T> = row.0.iter().map(|r| namer.conv(&r.0, true, true)).collect();
    let term = T::list(vals);
    let mut raw: Vec<Vec<(PTerm, PTerm)>> = vec![];
    if let Some(first) = row.0.first() {
        for c in first.1.iter() {
            if let Some(d) = c.downcast_ref::<DisequalityConstraint<SimUser, Eng>>() {
                raw.push(d.smap_ref().iter().map(|(k, v)| (k.clone(), v.clone())).collect());
            }
        }
    }
    // 1st pass: sort with hidden variables anonymous, so naming does not depend on VarIDs
    let mut keyed: Vec<(Vec<(T, T)>, Vec<(PTerm, PTerm)>)> = raw
        .into_iter()
        .map(|c| {
            let mut pairs: Vec<((T, T), (PTerm, PTerm))> = c
                .into_iter()
                .map(|(k, v)| {
                    (
                        (namer.conv(&k, false, false), namer.conv(&v, false, false)),
                        (k, v),
                    )
                })
                .collect();
            pairs.sort_by(|a, b| a.0.cmp(&b.0));
            let keys = pairs.iter().map(|p| p.0.clone()).collect();
            let raws = pairs.into_iter().map(|p| p.1).collect();
            (keys, raws)
        })
        .collect();
    keyed.sort_by(|a, b| a.0.cmp(&b.0));
    // 2nd pass: name hidden variables by first occurrence, re-sort
    let mut diseqs: Vec<Vec<(T, T)>> = keyed
        .into_iter()
        .map(|(_, raws)| {
            let mut pairs: Vec<(T, T)> = raws
                .iter()
                .map(|(k, v)| (namer.conv(k, false, true), namer.conv(v, false, true)))
                .collect();
            pairs.sort();
            pairs
        })
        .collect();
    diseqs.sort();
    EAnswer { term, diseqs }
}

pub struct RunOut {
    pub answers: Vec<EAnswer>,
    /// what `Observe` goals logged, in order
    pub observed: Vec<(u32, T)>,
    /// user-state snapshots taken by the same `Observe` goals
    pub observed_user: Vec<crate::builder::UserSnap>,
    /// invariant violations logged by `Probe` goals anywhere in the search
    pub probe_log: Vec<String>,
    pub probes_run: u64,
    /// value of the quanta clock when each answer was returned
    pub quanta_at: Vec<u64>,
    pub end: End,
    pub stats: Stats,
}

/// Run `p` once from a fresh query, taking at most `max_answers`, under `cfg`.
pub fn run_program(p: &Program, cfg: &SimCfg, max_answers: usize, record: bool) -> RunOut {
    crate::builder::OBSERVED.with(|o| o.borrow_mut().clear());
    crate::builder::OBSERVED_USER.with(|o| o.borrow_mut().clear());
    crate::builder::PROBE_LOG.with(|o| o.borrow_mut().clear());
    crate::builder::PROBES_RUN.with(|o| o.set(0));
    let handle = Handle::install(cfg, record);
    let h2 = handle.clone();
    let mut answers = vec![];
    let mut quanta_at = vec![];
    let res = catch_unwind(AssertUnwindSafe(|| {
        let q: PQuery = build_query(p);
        let mut it = q.run_with_user(SimUser::default(), ());
        let mut end = End::Limit;
        while answers.len() < max_answers {
            match it.next() {
                Some(row) => {
                    h2.set_armed(false);
                    answers.push(canon_row(&row));
                    h2.set_armed(true);
                    quanta_at.push(h2.quanta());
                }
                None => {
                    end = End::Exhausted;
                    break;
                }
            }
        }
        end
    }));
    let end = match res {
        Ok(e) => e,
        Err(payload) => classify_unwind(payload),
    };
    let stats = handle.finish();
    let observed = crate::builder::OBSERVED.with(|o| std::mem::take(&mut *o.borrow_mut()));
    let observed_user = crate::builder::OBSERVED_USER.with(|o| std::mem::take(&mut *o.borrow_mut()));
    let probe_log = crate::builder::PROBE_LOG.with(|o| std::mem::take(&mut *o.borrow_mut()));
    let probes_run = crate::builder::PROBES_RUN.with(|o| o.get());
    RunOut {
        answers,
        observed,
        observed_user,
        probe_log,
        probes_run,
        quanta_at,
        end,
        stats,
    }
}

/// Run closure `f` under a driver, converting unwinds.
pub fn with_driver<R>(
    cfg: &SimCfg,
    record: bool,
    f: impl FnOnce(&Handle) -> R,
) -> (Result<R, End>, Stats) {
    let handle = Handle::install(cfg, record);
    let res = catch_unwind(AssertUnwindSafe(|| f(&handle)));
    let res = match res {
        Ok(r) => Ok(r),
        Err(payload) => Err(classify_unwind(payload)),
    };
    let stats = handle.finish();
    (res, stats)
}

#[allow(dead_code)]
pub fn touch(state: &mut PState) {
    check_user_invariants(state)
}
