//! Case / verdict types, the parallel seeded runner, minimisation, replay files, evidence.
use crate::ast::*;
use crate::driver::{SimCfg, Stats};
use crate::rng::{mix, Rng};
use crate::shrink;
use serde::{Deserialize, Serialize};
use serde_json::{json, Value};
use std::collections::{BTreeMap, HashSet};
use std::sync::atomic::{AtomicBool, AtomicUsize, Ordering};
use std::sync::{Arc, Mutex};
use std::time::Instant;

#[derive(Clone, Debug, PartialEq, Eq, Serialize, Deserialize)]
pub struct Case {
    pub property: String,
    /// which oracle / configuration of the check this case exercises
    pub oracle: String,
    pub program: Program,
    pub cfg: SimCfg,
    /// check-specific parameters (second program, consumer script, bounds ...)
    #[serde(default)]
    pub extra: Value,
}

#[derive(Clone, Debug)]
pub enum Verdict {
    Pass,
    /// the oracle could not decide (reference out of fuel, work cap hit ...): neither pass nor fail
    Inconclusive(String),
    Violation { class: String, detail: String },
}

#[derive(Clone, Debug, Default)]
pub struct Facts {
    /// a perturbation or non-trivial consumer operation actually fired and the oracle compared
    /// at least one answer or verified an expected-empty result
    pub nontrivial: bool,
    pub trace_hash: u64,
    pub stats: Vec<Stats>,
    /// named fault kinds that fired in this case
    pub faults: BTreeMap<&'static str, u64>,
    pub answers_compared: u64,
    /// numeric observations; the evidence reports the maximum of each over the run
    pub metrics: BTreeMap<&'static str, f64>,
}

pub struct CaseResult {
    pub verdict: Verdict,
    pub facts: Facts,
}

#[derive(Clone, Copy, Debug, PartialEq, Eq)]
pub enum Tier {
    Quick,
    Thorough,
}

pub trait Check: Sync {
    fn id(&self) -> &'static str;
    /// Number of generated cases for the tier.
    fn cases(&self, tier: Tier) -> usize;
    /// Generate case `index`: a pure function of (seed, index, tier).
    fn generate(&self, seed: u64, index: u64, tier: Tier) -> Case;
    /// Execute and judge: a pure function of the case and the code under test.
    fn run(&self, case: &Case) -> CaseResult;
    /// Is a (shrunk) case still inside this check's well-formedness rules?
    fn valid(&self, case: &Case) -> bool;
    /// Syntactic class of a known finding this case falls into, if any.
    fn known_class(&self, _case: &Case) -> Option<String> {
        None
    }
    fn rule(&self) -> String;
    fn real_components(&self) -> Vec<&'static str> {
        vec![
            "proto_vulcan::state (unification, substitution, constraint store, FD domains, reification)",
            "proto_vulcan::stream (Stream algebra, StreamEngine::step)",
            "proto_vulcan::solver (Solver::next/peek/trunc/start)",
            "proto_vulcan::operator::* and proto_vulcan::relation::*",
            "proto_vulcan::query (Query, ResultIterator)",
        ]
    }
    fn stub_components(&self) -> Vec<&'static str> {
        vec![
            "std HashMap/HashSet inside SMap, dstore, ConstraintStore -> insertion-ordered containers with simulator-chosen iteration order",
            "leaf goals -> SimLeaf (scripted answers, latency, shape, tail) where the case uses them",
            "consumer -> scripted client driving real ResultIterators",
        ]
    }
}

/// Scheduling quanta a finite search tree may take before "still running" counts as a violation:
/// proportional to the work the reference interpreter needed (its evaluation steps and answers;
/// every answer also pays for the query's reification goals). The factors are two orders of
/// magnitude above the largest ratio measured on the unchanged tree (`quanta_needed_over_budget`
/// in the evidence stays below 0.05).
pub fn finite_budget(reference_steps: u64, answers: usize) -> u64 {
    20_000 + 400 * reference_steps + 4_000 * answers as u64
}

pub fn case_seed(seed: u64, property: &str, index: u64) -> u64 {
    mix(&[seed, crate::rng::hash_str(property), index])
}

/// Four independent PRNG streams per case.
pub struct Streams {
    pub workload: Rng,
    pub schedule: Rng,
    pub leaves: Rng,
    pub consumer: Rng,
}

/// The program a case actually executes: the case's program, or — when the case says
/// `"dfs": true` in its extra parameters — the same program as the body of one `dfs { .. }` block
/// (every disjunction in it is then searched depth-first: mplus_dfs / bind_dfs instead of
/// mplus / bind). Oracles keep reading `case.program`: for terminating programs the answer multiset
/// does not depend on the search order.
pub fn exec_program(case: &Case) -> Program {
    wrap_dfs_if(&case.program, case.extra["dfs"].as_bool() == Some(true))
}

pub fn wrap_dfs_if(p: &Program, dfs: bool) -> Program {
    if dfs {
        Program { nq: p.nq, defs: p.defs.clone(), body: vec![G::Dfs(p.body.clone())] }
    } else {
        p.clone()
    }
}

pub fn streams(seed: u64, property: &str, index: u64) -> Streams {
    let s = case_seed(seed, property, index);
    Streams {
        workload: Rng::new(mix(&[s, 1])),
        schedule: Rng::new(mix(&[s, 2])),
        leaves: Rng::new(mix(&[s, 3])),
        consumer: Rng::new(mix(&[s, 4])),
    }
}

#[derive(Default)]
struct Agg {
    evaluations: u64,
    pass: u64,
    inconclusive: u64,
    inconclusive_reasons: BTreeMap<String, u64>,
    distinct: HashSet<u64>,
    traces: HashSet<u64>,
    programs: HashSet<u64>,
    faults: BTreeMap<String, u64>,
    reorder_by_site: BTreeMap<String, u64>,
    probes: BTreeMap<String, u64>,
    step_kinds: [u64; 8],
    quanta: u64,
    work: u64,
    answers_compared: u64,
    metrics_max: BTreeMap<String, f64>,
    oracles: BTreeMap<String, u64>,
    samples: Vec<Value>,
    violations: Vec<(u64, Case, String, String)>,
}

fn hash_value<Ty: std::hash::Hash>(v: &Ty) -> u64 {
    use std::hash::Hasher;
    let mut h = std::collections::hash_map::DefaultHasher::new();
    v.hash(&mut h);
    h.finish()
}

impl Agg {
    fn add(&mut self, index: u64, case: &Case, res: &CaseResult, want_sample: bool) {
        self.evaluations += 1;
        *self.oracles.entry(case.oracle.clone()).or_insert(0) += 1;
        let ph = hash_value(&case.program);
        self.programs.insert(ph);
        for st in res.facts.stats.iter() {
            self.quanta += st.quanta;
            self.work += st.work;
            for i in 0..8 {
                self.step_kinds[i] += st.step_kinds[i];
            }
            for (k, v) in st.reorder_by_site.iter() {
                *self.reorder_by_site.entry(k.clone()).or_insert(0) += v;
            }
            for (k, v) in st.probes.iter() {
                *self.probes.entry(k.to_string()).or_insert(0) += v;
            }
            *self.faults.entry("reorder".into()).or_insert(0) += st.reorders_fired;
            *self.faults.entry("delay".into()).or_insert(0) += st.yields_fired;
        }
        for (k, v) in res.facts.faults.iter() {
            *self.faults.entry(k.to_string()).or_insert(0) += v;
        }
        self.answers_compared += res.facts.answers_compared;
        for (k, v) in res.facts.metrics.iter() {
            let e = self.metrics_max.entry(k.to_string()).or_insert(f64::MIN);
            if *v > *e {
                *e = *v;
            }
        }
        self.traces.insert(res.facts.trace_hash);
        match &res.verdict {
            Verdict::Pass => {
                self.pass += 1;
                if res.facts.nontrivial {
                    self.distinct
                        .insert(mix(&[ph, res.facts.trace_hash, hash_value(&case.extra.to_string())]));
                }
                if want_sample && res.facts.nontrivial && self.samples.len() < 3 {
                    self.samples.push(json!({
                        "case_index": index,
                        "oracle": case.oracle,
                        "program": crate::show::program(&case.program),
                        "schedule": serde_json::to_value(&case.cfg).unwrap(),
                        "extra": case.extra,
                        "answers_compared": res.facts.answers_compared,
                    }));
                }
            }
            Verdict::Inconclusive(why) => {
                self.inconclusive += 1;
                *self.inconclusive_reasons.entry(why.clone()).or_insert(0) += 1;
            }
            Verdict::Violation { class, detail } => {
                self.violations
                    .push((index, case.clone(), class.clone(), detail.clone()));
            }
        }
    }

    fn merge(&mut self, o: Agg) {
        self.evaluations += o.evaluations;
        self.pass += o.pass;
        self.inconclusive += o.inconclusive;
        for (k, v) in o.inconclusive_reasons {
            *self.inconclusive_reasons.entry(k).or_insert(0) += v;
        }
        self.distinct.extend(o.distinct);
        self.traces.extend(o.traces);
        self.programs.extend(o.programs);
        for (k, v) in o.faults {
            *self.faults.entry(k).or_insert(0) += v;
        }
        for (k, v) in o.reorder_by_site {
            *self.reorder_by_site.entry(k).or_insert(0) += v;
        }
        for (k, v) in o.probes {
            *self.probes.entry(k).or_insert(0) += v;
        }
        for i in 0..8 {
            self.step_kinds[i] += o.step_kinds[i];
        }
        self.quanta += o.quanta;
        self.work += o.work;
        self.answers_compared += o.answers_compared;
        for (k, v) in o.metrics_max {
            let e = self.metrics_max.entry(k).or_insert(f64::MIN);
            if v > *e {
                *e = v;
            }
        }
        for (k, v) in o.oracles {
            *self.oracles.entry(k).or_insert(0) += v;
        }
        self.samples.extend(o.samples);
        self.violations.extend(o.violations);
    }
}

pub struct RunReport {
    pub exit_code: i32,
}

fn workers() -> usize {
    std::env::var("VERIF_WORKERS")
        .ok()
        .and_then(|s| s.parse().ok())
        .unwrap_or_else(|| {
            std::thread::available_parallelism()
                .map(|n| n.get())
                .unwrap_or(4)
        })
        .max(1)
}

const STACK: usize = 1 << 29;

/// Run `f` on a big-stack thread (deep stream drops and recursion must not kill the harness).
pub fn on_big_stack<R: Send + 'static>(f: impl FnOnce() -> R + Send + 'static) -> R {
    std::thread::Builder::new()
        .stack_size(STACK)
        .spawn(f)
        .unwrap()
        .join()
        .unwrap()
}

/// Seeded exploration of one check.
pub fn explore(check: &'static dyn Check, seed: u64, tier: Tier, verif_dir: &str) -> RunReport {
    let started = Instant::now();
    let total = std::env::var("VERIF_CASES")
        .ok()
        .and_then(|s| s.parse::<usize>().ok())
        .unwrap_or_else(|| check.cases(tier));
    let wall_cap: f64 = std::env::var("VERIF_BUDGET_S")
        .ok()
        .and_then(|s| s.parse().ok())
        .unwrap_or(match tier {
            Tier::Quick => 240.0,
            Tier::Thorough => 3000.0,
        });
    let nworkers = workers();
    // determinism self-check: the same 256 cases, once on one thread and once on all of them
    let self_n = 256u64.min(total as u64);
    let inflight = Inflight::open(verif_dir, check.id());
    let d1 = digest_of(check, seed, tier, self_n, 1, Some(&inflight));
    let d2 = digest_of(check, seed, tier, self_n, nworkers, Some(&inflight));
    // A mismatch is a harness error only if the exploration then finds nothing: code under test
    // whose behaviour depends on what ran earlier on a thread (e.g. colliding variable ids) makes
    // runs differ too, and then the violation is what must be reported.
    let self_check_ok = d1 == d2;
    let chunk = 4096usize;
    let next = Arc::new(AtomicUsize::new(0));
    let stop = Arc::new(AtomicBool::new(false));
    let agg = Arc::new(Mutex::new(Agg::default()));
    let mut chunk_start = 0usize;
    let mut stopped_early = false;
    while chunk_start < total {
        let chunk_end = (chunk_start + chunk).min(total);
        next.store(chunk_start, Ordering::SeqCst);
        let mut handles = vec![];
        for _w in 0..nworkers {
            let next = next.clone();
            let agg = agg.clone();
            let stop = stop.clone();
            let slot = inflight.slot(_w);
            let h = std::thread::Builder::new()
                .stack_size(STACK)
                .spawn(move || {
                    let mut local = Agg::default();
                    loop {
                        let i = next.fetch_add(1, Ordering::SeqCst);
                        if i >= chunk_end || stop.load(Ordering::Relaxed) {
                            break;
                        }
                        slot.set(i as u64);
                        let case = check.generate(seed, i as u64, tier);
                        let res = check.run(&case);
                        local.add(i as u64, &case, &res, i < 64);
                    }
                    slot.set(u64::MAX);
                    agg.lock().unwrap().merge(local);
                })
                .unwrap();
            handles.push(h);
        }
        for h in handles {
            h.join().unwrap();
        }
        chunk_start = chunk_end;
        let nviol = agg.lock().unwrap().violations.len();
        if nviol > 0 {
            break;
        }
        if started.elapsed().as_secs_f64() > wall_cap {
            stopped_early = chunk_start < total;
            break;
        }
    }
    let mut agg = Arc::try_unwrap(agg).ok().unwrap().into_inner().unwrap();
    agg.samples.sort_by_key(|s| s["case_index"].as_u64().unwrap_or(0));
    agg.samples.truncate(3);
    agg.violations.sort_by_key(|v| v.0);

    // Known findings and fixed regressions (replayed on every run).
    let kf = crate::findings::load(verif_dir);
    let mut exit_code = 0;
    let mut known_lines = vec![];
    let mut known_replayed = vec![];
    let mut fixed_replayed = vec![];
    for f in kf.iter().filter(|f| f.property == check.id()) {
        let path = format!("{}/{}", verif_dir, f.reproducer);
        match load_case(&path) {
            Ok(case) => {
                let case2 = case.clone();
                let res = on_big_stack(move || check.run(&case2).verdict);
                let still = matches!(res, Verdict::Violation { .. });
                if f.status == "known" {
                    known_replayed.push(json!({"reproducer": f.reproducer, "still_fails": still, "class": f.class}));
                    if still {
                        known_lines.push(format!(
                            "KNOWN-FINDING: property={} {}",
                            check.id(),
                            f.description
                        ));
                    } else {
                        println!(
                            "note: known finding no longer reproduces: {} ({})",
                            f.reproducer, f.description
                        );
                    }
                } else {
                    fixed_replayed.push(json!({"reproducer": f.reproducer, "still_fails": still, "commit": f.commit}));
                    if let Verdict::Violation { class, detail } = res {
                        // a fixed entry suppresses nothing: the defect is back
                        agg.violations.insert(0, (u64::MAX, case, class, detail));
                    }
                }
            }
            Err(e) => {
                eprintln!("harness error: cannot load reproducer {}: {}", path, e);
                return RunReport { exit_code: 2 };
            }
        }
    }
    for l in known_lines.iter() {
        println!("{}", l);
    }

    // Report violations: minimise, drop those that fall into a known class, write replay files.
    let mut reported = 0;
    let mut not_reproducible = 0u32;
    let mut seen_classes: HashSet<String> = HashSet::new();
    let violations = std::mem::take(&mut agg.violations);
    let nviol_total = violations.len();
    for (index, case, class, detail) in violations.into_iter().take(24) {
        if seen_classes.contains(&class) && reported >= 1 {
            continue;
        }
        // A violation that does not reproduce when its case runs again on a fresh thread depends
        // on what ran before it in the process (process-global state such as the variable-id
        // counter): the supervisor then looks for a failing *sequence* of cases instead.
        if index != u64::MAX {
            let c = case.clone();
            let again = on_big_stack(move || check.run(&c).verdict);
            if !matches!(again, Verdict::Violation { .. }) {
                not_reproducible += 1;
                println!(
                    "note: case {} reported {} but passes when run again in isolation: history-dependent",
                    index, class
                );
                continue;
            }
        }
        let (min_case, min_class, min_detail) = {
            let c = case.clone();
            let cl = class.clone();
            let dt = detail.clone();
            on_big_stack(move || minimise(check, c, cl, dt))
        };
        if let Some(k) = check.known_class(&min_case) {
            if kf.iter().any(|f| f.status == "known" && f.property == check.id() && f.class == k) {
                // second line of defence: an unlisted path into a listed class
                println!(
                    "KNOWN-FINDING: property={} case {} minimises into listed class {}",
                    check.id(),
                    index,
                    k
                );
                continue;
            }
        }
        seen_classes.insert(class.clone());
        let sig = format!("{:016x}", hash_value(&(min_class.clone(), serde_json::to_string(&min_case).unwrap())));
        let dir = format!("{}/replays/{}", verif_dir, check.id());
        let _ = std::fs::create_dir_all(&dir);
        let path = format!("{}/{}.json", dir, sig);
        let doc = json!({
            "property": check.id(),
            "violation_class": min_class,
            "detail": min_detail,
            "seed": seed,
            "case_index": if index == u64::MAX { Value::Null } else { json!(index) },
            "program_text": crate::show::program(&min_case.program),
            "case": serde_json::to_value(&min_case).unwrap(),
            "original_case": serde_json::to_value(&case).unwrap(),
        });
        std::fs::write(&path, serde_json::to_string_pretty(&doc).unwrap()).unwrap();
        println!("VIOLATION property={} replay={}", check.id(), path);
        println!("  class: {}", min_class);
        println!("  detail: {}", min_detail);
        println!("  program: {}", crate::show::program(&min_case.program));
        reported += 1;
        exit_code = 1;
    }

    let wall = started.elapsed().as_secs_f64();
    let zero_probes: Vec<String> = crate::probes::ALL
        .iter()
        .filter(|p| !agg.probes.contains_key(**p))
        .map(|s| s.to_string())
        .collect();
    let evidence = json!({
        "property_id": check.id(),
        "tier": match tier { Tier::Quick => "quick", Tier::Thorough => "thorough" },
        "seed": seed,
        "level": "exploration",
        "coverage": {
            "evaluations": agg.evaluations,
            "distinct_nontrivial": agg.distinct.len(),
            "rule": check.rule(),
            "samples": agg.samples,
            "exhaustive": false,
            "passes": agg.pass,
            "inconclusive": agg.inconclusive,
            "inconclusive_reasons": agg.inconclusive_reasons,
            "distinct_programs": agg.programs.len(),
            "distinct_traces": agg.traces.len(),
            "cases_by_oracle": agg.oracles,
            "answers_compared": agg.answers_compared,
            "metrics_max": agg.metrics_max,
            "planned_cases": total,
            "stopped_early_on_wall_clock": stopped_early,
            "runs_per_hour": if wall > 0.0 { (agg.evaluations as f64 / wall * 3600.0) as u64 } else { 0 },
            "sim_quanta_total": agg.quanta,
            "sim_steps_total": agg.work,
            "steps_per_second": if wall > 0.0 { (agg.work as f64 / wall) as u64 } else { 0 },
            "step_kinds": {
                "Bind": agg.step_kinds[0], "MPlus": agg.step_kinds[1], "Pause": agg.step_kinds[2],
                "BindDFS": agg.step_kinds[3], "MPlusDFS": agg.step_kinds[4], "PauseDFS": agg.step_kinds[5],
                "Delay": agg.step_kinds[6], "Iterator": agg.step_kinds[7],
            },
            "faults_fired": agg.faults,
            "reorder_by_site": agg.reorder_by_site,
            "probes": agg.probes,
            "zero_hit_probes": zero_probes,
            "stream_transition_cells_hit": format!(
                "{} of 16",
                ["mplus", "mplus_dfs", "bind", "bind_dfs"]
                    .iter()
                    .flat_map(|op| ["empty", "unit", "lazy", "cons"].iter().map(move |v| format!("{}_{}", op, v)))
                    .filter(|k| agg.probes.contains_key(k))
                    .count()
            ),
            "seeds": [seed],
            "seeds_per_hour": if wall > 0.0 { 3600.0 / wall } else { 0.0 },
            "workers": nworkers,
            "real_components": check.real_components(),
            "stub_components": check.stub_components(),
            "known_findings_replayed": known_replayed,
            "fixed_regressions_replayed": fixed_replayed,
            "violations_found_before_minimisation": nviol_total,
            "determinism_selfcheck": {"cases": self_n, "workers_compared": [1, nworkers], "identical": self_check_ok, "digest": format!("{:016x}", d1)},
        },
        "assumptions": [
            "the reference models/oracles in /verif/sim/src are correct (they are small and share no code with proto-vulcan)",
            "insertion-ordered containers with simulator-chosen iteration order cover the iteration orders a std RandomState HashMap/HashSet can produce",
            "a clean batch is evidence, not proof: seeded sampling of (program x schedule x consumer)",
        ],
        "wall_s": wall,
        "violations": reported,
    });
    // a companion harness of the same check (C15: the shuttle thread harness) hands its summary in
    let mut evidence = evidence;
    if let Ok(path) = std::env::var("PVSIM_COMPANION_SUMMARY") {
        match std::fs::read_to_string(&path).ok().and_then(|t| serde_json::from_str::<Value>(&t).ok()) {
            Some(v) => {
                if !v["violation"].is_null() {
                    evidence["violations"] = json!(reported + 1);
                }
                evidence["coverage"]["threads"] = v;
            }
            None => {
                eprintln!("harness error: companion summary {} is missing or malformed", path);
                return RunReport { exit_code: 2 };
            }
        }
    }
    let epath = format!("{}/evidence/{}.json", verif_dir, check.id());
    let _ = std::fs::create_dir_all(format!("{}/evidence", verif_dir));
    std::fs::write(&epath, serde_json::to_string_pretty(&evidence).unwrap()).unwrap();
    println!(
        "{} {}: seed={} cases={} pass={} inconclusive={} distinct_nontrivial={} violations={} wall={:.1}s",
        check.id(),
        match tier { Tier::Quick => "quick", Tier::Thorough => "thorough" },
        seed,
        agg.evaluations,
        agg.pass,
        agg.inconclusive,
        agg.distinct.len(),
        reported,
        wall
    );
    if exit_code == 0 && not_reproducible > 0 {
        // tell the supervisor to search for a failing sequence of cases
        return RunReport { exit_code: 3 };
    }
    if exit_code == 0 && !self_check_ok {
        eprintln!(
            "harness error: determinism self-check failed for {} (seed {}): {:016x} vs {:016x}, and no violation explains it",
            check.id(), seed, d1, d2
        );
        return RunReport { exit_code: 2 };
    }
    RunReport { exit_code }
}

// ---------------------------------------------------------------------------------------------
// In-flight bookkeeping for the supervisor (see main.rs): which case each worker is running.

pub fn inflight_path(verif_dir: &str, id: &str) -> String {
    format!("{}/target/inflight-{}.bin", verif_dir, id)
}

pub struct Inflight {
    file: Option<Arc<std::fs::File>>,
}

pub struct Slot {
    file: Option<Arc<std::fs::File>>,
    offset: u64,
}

impl Inflight {
    pub fn open(verif_dir: &str, id: &str) -> Inflight {
        let _ = std::fs::create_dir_all(format!("{}/target", verif_dir));
        let file = std::fs::OpenOptions::new()
            .create(true)
            .write(true)
            .open(inflight_path(verif_dir, id))
            .ok()
            .map(Arc::new);
        Inflight { file }
    }

    pub fn slot(&self, worker: usize) -> Slot {
        Slot { file: self.file.clone(), offset: 8 * worker as u64 }
    }
}

impl Slot {
    pub fn set(&self, index: u64) {
        use std::os::unix::fs::FileExt;
        if let Some(f) = &self.file {
            let _ = f.write_at(&index.to_le_bytes(), self.offset);
        }
    }
}

/// The case indices that were being run when the process died.
pub fn read_inflight(path: &str) -> Vec<u64> {
    let mut out = vec![];
    if let Ok(bytes) = std::fs::read(path) {
        for chunk in bytes.chunks(8) {
            if chunk.len() == 8 {
                let mut b = [0u8; 8];
                b.copy_from_slice(chunk);
                let v = u64::from_le_bytes(b);
                if v != u64::MAX && !out.contains(&v) {
                    out.push(v);
                }
            }
        }
    }
    out.sort();
    out
}

pub fn write_crash_replay(
    check: &'static dyn Check,
    verif_dir: &str,
    seed: u64,
    index: u64,
    case: &Case,
    how: &str,
) -> String {
    let dir = format!("{}/replays/{}", verif_dir, check.id());
    let _ = std::fs::create_dir_all(&dir);
    let path = format!("{}/crash-{}-{}.json", dir, seed, index);
    let doc = json!({
        "property": check.id(),
        "violation_class": format!("crash ({})", how),
        "detail": "the process running this case dies (stack overflow, abort or double panic); not minimised",
        "seed": seed,
        "case_index": index,
        "program_text": crate::show::program(&case.program),
        "case": serde_json::to_value(case).unwrap(),
    });
    let _ = std::fs::write(&path, serde_json::to_string_pretty(&doc).unwrap());
    path
}

/// Run cases first..=last one after the other on the calling thread. Exit code 1 and a
/// `SEQ-VIOLATION` line at the first violation, 0 when all pass or the time cap is reached.
pub fn run_sequence(check: &'static dyn Check, verif_dir: &str, seed: u64, tier: Tier, first: u64, last: u64) -> i32 {
    let inflight = Inflight::open(verif_dir, &format!("{}-seq", check.id()));
    let slot = inflight.slot(0);
    let started = Instant::now();
    let cap: u64 = std::env::var("PVSIM_SEQ_BUDGET_S").ok().and_then(|s| s.parse().ok()).unwrap_or(180);
    for i in first..=last {
        slot.set(i);
        let case = check.generate(seed, i, tier);
        if let Verdict::Violation { class, detail } = check.run(&case).verdict {
            // only the last case of a replayed sequence counts; earlier ones are reported too,
            // the supervisor shortens the sequence to the first failure
            println!("SEQ-VIOLATION index={} {}: {}", i, class, detail.lines().next().unwrap_or(""));
            return 1;
        }
        if started.elapsed().as_secs() > cap {
            println!("SEQ-TIMEOUT index={}", i);
            break;
        }
    }
    slot.set(u64::MAX);
    0
}

pub fn write_sequence_replay(
    check: &'static dyn Check,
    verif_dir: &str,
    seed: u64,
    tier: &str,
    first: u64,
    last: u64,
    what: &str,
) -> String {
    let dir = format!("{}/replays/{}", verif_dir, check.id());
    let _ = std::fs::create_dir_all(&dir);
    let path = format!("{}/sequence-{}-{}-{}.json", dir, seed, first, last);
    let doc = json!({
        "property": check.id(),
        "violation_class": format!("history-dependent failure: {}", what),
        "detail": "the generated cases first..=last of this seed, run one after the other on one thread of a fresh process, fail at the last one",
        "sequence": {"seed": seed, "tier": tier, "first": first, "last": last},
    });
    let _ = std::fs::write(&path, serde_json::to_string_pretty(&doc).unwrap());
    path
}

/// (seed, tier, first, last) of a sequence replay file.
pub fn load_sequence(path: &str) -> Option<(u64, String, u64, u64)> {
    let text = std::fs::read_to_string(path).ok()?;
    let v: Value = serde_json::from_str(&text).ok()?;
    let s = v.get("sequence")?;
    Some((
        s["seed"].as_u64()?,
        s["tier"].as_str()?.to_string(),
        s["first"].as_u64()?,
        s["last"].as_u64()?,
    ))
}

pub fn load_case(path: &str) -> Result<Case, String> {
    let text = std::fs::read_to_string(path).map_err(|e| e.to_string())?;
    let v: Value = serde_json::from_str(&text).map_err(|e| e.to_string())?;
    let c = if v.get("case").is_some() { v["case"].clone() } else { v };
    serde_json::from_value(c).map_err(|e| e.to_string())
}

/// Replay one file in this process.
pub fn replay(check: &'static dyn Check, path: &str) -> i32 {
    match load_case(path) {
        Ok(case) => {
            let p = path.to_string();
            on_big_stack(move || match check.run(&case).verdict {
                Verdict::Violation { class, detail } => {
                    println!("VIOLATION property={} replay={}", check.id(), p);
                    println!("  class: {}", class);
                    println!("  detail: {}", detail);
                    println!("  program: {}", crate::show::program(&case.program));
                    1
                }
                Verdict::Pass => {
                    println!("replay of {} passes on this tree", p);
                    0
                }
                Verdict::Inconclusive(w) => {
                    println!("replay of {} is inconclusive: {}", p, w);
                    0
                }
            })
        }
        Err(e) => {
            eprintln!("harness error: {}", e);
            2
        }
    }
}

/// Greedy minimisation: keep any smaller valid case that still violates with the same class.
pub fn minimise(
    check: &'static dyn Check,
    case: Case,
    class: String,
    detail: String,
) -> (Case, String, String) {
    let mut best = case;
    let mut best_detail = detail;
    let deadline = Instant::now() + std::time::Duration::from_secs(60);
    let mut improved = true;
    let mut rounds = 0;
    while improved && rounds < 200 && Instant::now() < deadline {
        improved = false;
        rounds += 1;
        let mut candidates = shrink::case_candidates(&best);
        // prefer candidates outside every known class
        candidates.sort_by_key(|c| check.known_class(c).is_some());
        for cand in candidates {
            if Instant::now() > deadline {
                break;
            }
            if !check.valid(&cand) {
                continue;
            }
            if let Verdict::Violation { class: c2, detail: d2 } = check.run(&cand).verdict {
                if c2 == class {
                    if check.known_class(&best).is_none() && check.known_class(&cand).is_some() {
                        continue;
                    }
                    best = cand;
                    best_detail = d2;
                    improved = true;
                    break;
                }
            }
        }
    }
    // Schedule minimisation: when the case runs under exactly one driver, replace the seeded
    // policy by the explicit list of decisions it took, then turn decisions back into "insertion
    // order" / "no yield" one by one, so that the replay file names the reorders and yields the
    // violation actually needs.
    if !best.cfg.is_exact() && best.cfg.explicit_orders.is_none() {
        let still = |c: &Case| matches!(check.run(c).verdict, Verdict::Violation { class: ref c2, .. } if *c2 == class);
        crate::driver::set_record_all(true);
        let _ = check.run(&best);
        let traces = crate::driver::take_traces();
        crate::driver::set_record_all(false);
        if traces.len() == 1 {
            let (orders, yields) = traces.into_iter().next().unwrap();
            let mut explicit = best.clone();
            explicit.cfg.explicit_orders = Some(orders);
            explicit.cfg.explicit_yields = Some(yields);
            if still(&explicit) {
                best = explicit;
                // yields first (cheap), then reorders; coarse to fine
                let mut ys = best.cfg.explicit_yields.clone().unwrap_or_default();
                let mut width = ys.len().max(1);
                while width >= 1 && Instant::now() < deadline {
                    let mut i = 0;
                    while i < ys.len() && Instant::now() < deadline {
                        let mut cand_ys = ys.clone();
                        let end = (i + width).min(cand_ys.len());
                        cand_ys.drain(i..end);
                        let mut cand = best.clone();
                        cand.cfg.explicit_yields = Some(cand_ys.clone());
                        if still(&cand) {
                            ys = cand_ys;
                            best = cand;
                        } else {
                            i += width;
                        }
                    }
                    if width == 1 {
                        break;
                    }
                    width /= 2;
                }
                let mut os = best.cfg.explicit_orders.clone().unwrap_or_default();
                let positions: Vec<usize> = os.iter().enumerate().filter(|(_, o)| o.is_some()).map(|(i, _)| i).collect();
                let mut width = positions.len().max(1);
                while width >= 1 && Instant::now() < deadline {
                    let live: Vec<usize> =
                        os.iter().enumerate().filter(|(_, o)| o.is_some()).map(|(i, _)| i).collect();
                    let mut k = 0;
                    while k < live.len() && Instant::now() < deadline {
                        let mut cand_os = os.clone();
                        for p in live[k..(k + width).min(live.len())].iter() {
                            cand_os[*p] = None;
                        }
                        let mut cand = best.clone();
                        cand.cfg.explicit_orders = Some(cand_os.clone());
                        if still(&cand) {
                            os = cand_os;
                            best = cand;
                        }
                        k += width;
                    }
                    if width == 1 {
                        break;
                    }
                    width /= 2;
                }
                // drop the trailing identity decisions: shorter file, same meaning
                if let Some(v) = best.cfg.explicit_orders.as_mut() {
                    while matches!(v.last(), Some(None)) {
                        v.pop();
                    }
                }
                if let Verdict::Violation { detail, .. } = check.run(&best).verdict {
                    best_detail = detail;
                }
            }
        }
    }
    (best, class, best_detail)
}

/// Print a digest of the first `n` cases' event logs (verdict, trace hash, step counts, answers
/// compared). Two processes given the same seed must print the same digest.
pub fn determinism_digest(check: &'static dyn Check, seed: u64, tier: Tier, n: u64) {
    let digest = digest_of(check, seed, tier, n, workers(), None);
    println!("DIGEST check={} seed={} cases={} digest={:016x}", check.id(), seed, n, digest);
}

/// Digest of the event logs of the first `n` cases, computed with `nworkers` threads.
pub fn digest_of(
    check: &'static dyn Check,
    seed: u64,
    tier: Tier,
    n: u64,
    nworkers: usize,
    inflight: Option<&Inflight>,
) -> u64 {
    let next = Arc::new(AtomicUsize::new(0));
    let out: Arc<Mutex<Vec<(u64, u64)>>> = Arc::new(Mutex::new(vec![]));
    let mut handles = vec![];
    for w in 0..nworkers {
        let next = next.clone();
        let out = out.clone();
        let slot = inflight.map(|f| f.slot(w));
        handles.push(
            std::thread::Builder::new()
                .stack_size(STACK)
                .spawn(move || loop {
                    let i = next.fetch_add(1, Ordering::SeqCst) as u64;
                    if i >= n {
                        if let Some(s) = &slot {
                            s.set(u64::MAX);
                        }
                        break;
                    }
                    if let Some(s) = &slot {
                        s.set(i);
                    }
                    let case = check.generate(seed, i, tier);
                    let res = check.run(&case);
                    let v = match &res.verdict {
                        Verdict::Pass => 1u64,
                        Verdict::Inconclusive(w) => mix(&[2, crate::rng::hash_str(w)]),
                        Verdict::Violation { class, detail } => {
                            mix(&[3, crate::rng::hash_str(class), crate::rng::hash_str(detail)])
                        }
                    };
                    let mut words = vec![v, res.facts.trace_hash, res.facts.answers_compared];
                    for st in res.facts.stats.iter() {
                        words.extend([st.quanta, st.work, st.order_calls, st.yield_calls, st.inserts]);
                    }
                    words.push(crate::rng::hash_str(&serde_json::to_string(&case).unwrap()));
                    out.lock().unwrap().push((i, mix(&words)));
                })
                .unwrap(),
        );
    }
    for h in handles {
        h.join().unwrap();
    }
    let mut v = out.lock().unwrap().clone();
    v.sort();
    let mut digest = 0u64;
    for (i, h) in v.iter() {
        digest = mix(&[digest, *i, *h]);
    }
    digest
}
