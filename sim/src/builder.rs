//! AST -> real proto-vulcan goals, through the library's public runtime API (the same calls the
//! macros expand to), plus the simulated leaf goals.
use crate::ast::*;
use crate::simuser::*;
use proto_vulcan::goal::{AnyGoal, DFSGoal, Goal, GoalCast};
use proto_vulcan::lresult::LResult;
use proto_vulcan::lterm::{LTerm, LTermInner};
use proto_vulcan::lvalue::LValue;
use proto_vulcan::operator::closure::Closure;
use proto_vulcan::operator::conde::Conde;
use proto_vulcan::operator::conj::{Conj, InferredConj};
use proto_vulcan::operator::disj::{DFSDisj, Disj};
use proto_vulcan::operator::fngoal::FnGoal;
use proto_vulcan::operator::fresh::Fresh;
use proto_vulcan::operator::project::Project;
use proto_vulcan::operator::{ClosureOperatorParam, ForOperatorParam, OperatorParam};
use proto_vulcan::query::{Query, QueryResult};
use proto_vulcan::solver::Solve;
use proto_vulcan::stream::{LazyStream, Stream, StreamIterator};
use std::rc::Rc;

/// Result row of a simulated query: one LResult per query variable.
pub struct Row(pub Vec<LResult<SimUser, Eng>>);

impl QueryResult<SimUser, Eng> for Row {
    fn from_vec(v: Vec<LResult<SimUser, Eng>>) -> Row {
        Row(v)
    }
}

pub type PQuery = Query<Row, SimUser, Eng>;

pub type Env = Vec<Option<PTerm>>;

fn env_get(env: &Env, v: VarIx) -> PTerm {
    match env.get(v as usize) {
        Some(Some(t)) => t.clone(),
        _ => panic!("harness: unbound program variable v{}", v),
    }
}

fn env_set(env: &mut Env, v: VarIx, t: PTerm) {
    let i = v as usize;
    if env.len() <= i {
        env.resize(i + 1, None);
    }
    env[i] = Some(t);
}

pub fn term(t: &T, env: &Env) -> PTerm {
    match t {
        T::V(v) => env_get(env, *v),
        T::I(i) => LTerm::from(*i as isize),
        T::S(s) => LTerm::from(s.as_str()),
        T::B(b) => LTerm::from(*b),
        T::Nil => LTerm::empty_list(),
        T::Cons(h, tl) => LTerm::cons(term(h, env), term(tl, env)),
        T::Any(_) => LTerm::any(),
        T::Cmp(k, a, b) => crate::cmpd::make(*k, term(a, env), term(b, env)),
    }
}

/// Goal kind: interleaving (`Goal`) or depth-first (`DFSGoal`).
pub trait GK: AnyGoal<SimUser, Eng> {
    const DFS: bool;
    /// Disjunction of conjunctions through the entry functions the macros expand to:
    /// `conde { .. }` -> `operator::conde::conde` (interleaving only) and `cond { .. }` ->
    /// `operator::conde::cond` (inferred kind).
    fn conde(clauses: &[&[Self]]) -> Self;
    fn from_bfs(g: PGoal) -> Self;
    fn disj(a: Self, b: Self) -> Self;
    fn pause(state: Box<PState>, g: Self) -> PStream;
    fn lazy_pause(state: Box<PState>, g: Self) -> PLazyStream;
    fn lazy_mplus(a: PLazyStream, b: PLazyStream) -> PStream;
}

impl GK for PGoal {
    const DFS: bool = false;
    fn conde(clauses: &[&[Self]]) -> Self {
        // two-clause disjunctions are written `cond`, all others `conde`: both entry points run
        if clauses.len() == 2 {
            GoalCast::cast_into(proto_vulcan::operator::conde::cond::<SimUser, Eng, PGoal>(OperatorParam::new(clauses)))
        } else {
            proto_vulcan::operator::conde::conde(OperatorParam::new(clauses))
        }
    }
    fn from_bfs(g: PGoal) -> Self {
        g
    }
    fn disj(a: Self, b: Self) -> Self {
        Disj::new(a, b)
    }
    fn pause(state: Box<PState>, g: Self) -> PStream {
        Stream::pause(state, g)
    }
    fn lazy_pause(state: Box<PState>, g: Self) -> PLazyStream {
        LazyStream::pause(state, g)
    }
    fn lazy_mplus(a: PLazyStream, b: PLazyStream) -> PStream {
        Stream::lazy_mplus(a, b)
    }
}

impl GK for PDfsGoal {
    const DFS: bool = true;
    fn conde(clauses: &[&[Self]]) -> Self {
        GoalCast::cast_into(proto_vulcan::operator::conde::cond::<SimUser, Eng, PDfsGoal>(OperatorParam::new(clauses)))
    }
    fn from_bfs(_g: PGoal) -> Self {
        panic!("harness: interleaving-only goal inside a dfs block")
    }
    fn disj(a: Self, b: Self) -> Self {
        DFSDisj::new(a, b)
    }
    fn pause(state: Box<PState>, g: Self) -> PStream {
        Stream::pause_dfs(state, g)
    }
    fn lazy_pause(state: Box<PState>, g: Self) -> PLazyStream {
        LazyStream::pause_dfs(state, g)
    }
    fn lazy_mplus(a: PLazyStream, b: PLazyStream) -> PStream {
        Stream::lazy_mplus_dfs(a, b)
    }
}

#[derive(Clone)]
pub struct Ctx {
    pub defs: Rc<Vec<Def>>,
    pub qvars: Rc<Vec<PTerm>>,
}

/// Snapshot of the instrumented user state (and store size) of one search state.
#[derive(Clone, Debug, Default, PartialEq, Eq)]
pub struct UserSnap {
    pub path: Vec<u32>,
    pub with_calls: u32,
    pub take_calls: u32,
    pub ext_calls: u32,
    pub ext_bindings: u32,
    pub stored: u32,
}

pub fn user_snap(state: &PState) -> UserSnap {
    UserSnap {
        path: state.user_state.path.clone(),
        with_calls: state.user_state.with_calls,
        take_calls: state.user_state.take_calls,
        ext_calls: state.user_state.ext_calls,
        ext_bindings: state.user_state.ext_bindings,
        stored: state.cstore_ref().iter().count() as u32,
    }
}

thread_local! {
    /// What `Observe` goals saw, in the order states reached them.
    pub static OBSERVED: std::cell::RefCell<Vec<(u32, T)>> = std::cell::RefCell::new(Vec::new());
    /// User-state snapshots taken by the same `Observe` goals (parallel to OBSERVED).
    pub static OBSERVED_USER: std::cell::RefCell<Vec<UserSnap>> = std::cell::RefCell::new(Vec::new());
    /// Invariant violations seen by `Probe` goals, in any branch (also branches that fail later).
    pub static PROBE_LOG: std::cell::RefCell<Vec<String>> = std::cell::RefCell::new(Vec::new());
    pub static PROBES_RUN: std::cell::Cell<u64> = std::cell::Cell::new(0);
}

/// Build the goals of a conjunction. A goal that is written twice in a row (same AST, same
/// environment, no simulated leaf inside) is built once and the *same goal object* is used twice,
/// as in `let g = ...; proto_vulcan!([g, g])`: goal objects are reference-counted and may be
/// solved any number of times, so this must behave exactly like two separately built copies.
pub fn build_seq<K: GK>(gs: &[G], env: &Env, cx: &Ctx) -> Vec<K> {
    let mut out: Vec<K> = Vec::with_capacity(gs.len());
    for (i, g) in gs.iter().enumerate() {
        if i > 0 && gs[i - 1] == *g && !g.any(|x| matches!(x, G::Leaf(_))) {
            let prev = out[i - 1].clone();
            out.push(prev);
        } else {
            out.push(build::<K>(g, env, cx));
        }
    }
    out
}

pub fn build_conj<K: GK>(gs: &[G], env: &Env, cx: &Ctx) -> K {
    let goals: Vec<K> = build_seq::<K>(gs, env, cx);
    GoalCast::cast_into(InferredConj::<SimUser, Eng, K>::from_array(&goals))
}

fn clause_lists<K: GK>(cs: &[Vec<G>], env: &Env, cx: &Ctx) -> Vec<Vec<K>> {
    cs.iter().map(|c| build_seq::<K>(c, env, cx)).collect()
}

fn fngoal<K: GK>(f: Box<dyn Fn(&PSolver, PState) -> PStream>) -> K {
    GoalCast::cast_into(FnGoal::<SimUser, Eng>::new::<K>(f))
}

pub fn build<K: GK>(g: &G, env: &Env, cx: &Ctx) -> K {
    use proto_vulcan::relation as rel;
    match g {
        G::Succeed => GoalCast::cast_into(rel::succeed::succeed::<SimUser, Eng, K>()),
        G::Fail => GoalCast::cast_into(rel::fail::fail::<SimUser, Eng, K>()),
        G::Eq(a, b) => GoalCast::cast_into(rel::eq::eq::<SimUser, Eng, K>(term(a, env), term(b, env))),
        G::Neq(a, b) => {
            GoalCast::cast_into(rel::diseq::diseq::<SimUser, Eng, K>(term(a, env), term(b, env)))
        }
        G::Conj(gs) => build_conj::<K>(gs, env, cx),
        G::Conde(cs) => {
            let lists = clause_lists::<K>(cs, env, cx);
            let refs: Vec<&[K]> = lists.iter().map(|v| v.as_slice()).collect();
            K::conde(&refs)
        }
        G::Disj(a, b) => K::disj(build::<K>(a, env, cx), build::<K>(b, env, cx)),
        G::Fresh(vars, body) => {
            let mut env2 = env.clone();
            let mut lvars = vec![];
            for v in vars {
                // names of several shapes, reused across scopes: identity must never depend on them
                const NAMES: [&str; 7] = ["f", "_t", "x1", "__h", "Tmp", "q", "_0"];
                // every seventh variable is an anonymous one, as the macros create for `_`
                let name = NAMES[(*v as usize * 5 + 3) % NAMES.len()];
                let lv: PTerm = if name == "_0" { LTerm::any() } else { LTerm::var(name) };
                env_set(&mut env2, *v, lv.clone());
                lvars.push(lv);
            }
            let body: K = build_conj::<K>(body, &env2, cx);
            GoalCast::cast_into(Fresh::<SimUser, Eng, K>::new(lvars, body))
        }
        G::Leaf(leaf) => {
            let target = term(&leaf.target, env);
            let values = leaf.answers.iter().map(|a| term(&a.value, env)).collect();
            K::dynamic(Rc::new(SimLeaf {
                leaf: leaf.clone(),
                target,
                values,
                dfs: K::DFS,
            }))
        }
        G::Call(r, args) => {
            let a: Vec<PTerm> = args.iter().map(|t| term(t, env)).collect();
            let arg = |i: usize| a[i].clone();
            match r {
                Rel::Member => GoalCast::cast_into(rel::member::member::<SimUser, Eng, K>(arg(0), arg(1))),
                Rel::Member1 => {
                    GoalCast::cast_into(rel::member1::member1::<SimUser, Eng, K>(arg(0), arg(1)))
                }
                Rel::Append => {
                    GoalCast::cast_into(rel::append::append::<SimUser, Eng, K>(arg(0), arg(1), arg(2)))
                }
                Rel::Rember => {
                    GoalCast::cast_into(rel::rember::rember::<SimUser, Eng, K>(arg(0), arg(1), arg(2)))
                }
                Rel::Permute => {
                    GoalCast::cast_into(rel::permute::permute::<SimUser, Eng, K>(arg(0), arg(1)))
                }
                Rel::ConsR => {
                    GoalCast::cast_into(rel::cons::cons::<SimUser, Eng, K>(arg(0), arg(1), arg(2)))
                }
                Rel::First => GoalCast::cast_into(rel::first::first::<SimUser, Eng, K>(arg(0), arg(1))),
                Rel::Rest => GoalCast::cast_into(rel::rest::rest::<SimUser, Eng, K>(arg(0), arg(1))),
                Rel::Empty => GoalCast::cast_into(rel::empty::empty::<SimUser, Eng, K>(arg(0))),
                Rel::Distinct => GoalCast::cast_into(rel::distinct::distinct::<SimUser, Eng, K>(arg(0))),
                Rel::Always => K::from_bfs(rel::always::always::<SimUser, Eng>()),
                Rel::Never => K::from_bfs(rel::never::never::<SimUser, Eng>()),
                Rel::Succeed => GoalCast::cast_into(rel::succeed::succeed::<SimUser, Eng, K>()),
                Rel::Fail => GoalCast::cast_into(rel::fail::fail::<SimUser, Eng, K>()),
            }
        }
        G::CallDef(ix, args) => {
            let def = cx.defs[*ix as usize].clone();
            let a: Vec<PTerm> = args.iter().map(|t| term(t, env)).collect();
            let cx2 = cx.clone();
            let f: Box<dyn Fn() -> K> = Box::new(move || {
                let mut env2: Env = Vec::new();
                for (p, t) in def.params.iter().zip(a.iter()) {
                    env_set(&mut env2, *p, t.clone());
                }
                build_conj::<K>(&def.body, &env2, &cx2)
            });
            GoalCast::cast_into(Closure::<SimUser, Eng, K>::new(ClosureOperatorParam::new(f)))
        }
        G::Closure(gs) => {
            let gs = gs.clone();
            let env2 = env.clone();
            let cx2 = cx.clone();
            let f: Box<dyn Fn() -> K> = Box::new(move || build_conj::<K>(&gs, &env2, &cx2));
            GoalCast::cast_into(Closure::<SimUser, Eng, K>::new(ClosureOperatorParam::new(f)))
        }
        G::Conda(cs) => {
            let lists = clause_lists::<PGoal>(cs, env, cx);
            let refs: Vec<&[PGoal]> = lists.iter().map(|v| v.as_slice()).collect();
            K::from_bfs(proto_vulcan::operator::conda::conda(OperatorParam::new(&refs)))
        }
        G::Condu(cs) => {
            let lists = clause_lists::<PGoal>(cs, env, cx);
            let refs: Vec<&[PGoal]> = lists.iter().map(|v| v.as_slice()).collect();
            K::from_bfs(proto_vulcan::operator::condu::condu(OperatorParam::new(&refs)))
        }
        G::Onceo(gs) => {
            let lists: Vec<Vec<PGoal>> = group(build_seq::<PGoal>(gs, env, cx));
            let refs: Vec<&[PGoal]> = lists.iter().map(|v| v.as_slice()).collect();
            K::from_bfs(proto_vulcan::operator::onceo::onceo(OperatorParam::new(&refs)))
        }
        G::Dfs(gs) => {
            let lists: Vec<Vec<PDfsGoal>> =
                group(build_seq::<PDfsGoal>(gs, env, cx));
            let refs: Vec<&[PDfsGoal]> = lists.iter().map(|v| v.as_slice()).collect();
            GoalCast::cast_into(proto_vulcan::operator::dfs::dfs::<SimUser, Eng, K>(
                OperatorParam::new(&refs),
            ))
        }
        G::Anyo(gs) => {
            let lists: Vec<Vec<PGoal>> = group(build_seq::<PGoal>(gs, env, cx));
            let refs: Vec<&[PGoal]> = lists.iter().map(|v| v.as_slice()).collect();
            K::from_bfs(proto_vulcan::operator::anyo::anyo(OperatorParam::new(&refs)))
        }
        G::For(x, coll, body) => {
            let coll: Vec<PTerm> = coll.iter().map(|t| term(t, env)).collect();
            let body = body.clone();
            let env2 = env.clone();
            let cx2 = cx.clone();
            let x = *x;
            let f: Box<dyn Fn(PTerm) -> K> = Box::new(move |xt: PTerm| {
                let mut env3 = env2.clone();
                env_set(&mut env3, x, xt);
                let lists: Vec<Vec<K>> = build_seq::<K>(&body, &env3, &cx2).into_iter().map(|g| vec![g]).collect();
                let refs: Vec<&[K]> = lists.iter().map(|v| v.as_slice()).collect();
                GoalCast::cast_into(InferredConj::<SimUser, Eng, K>::from_conjunctions(&refs))
            });
            GoalCast::cast_into(proto_vulcan::operator::everyg::everyg(ForOperatorParam::new(coll, f)))
        }
        G::Project(vars, body) => {
            // as the macro lays it out: the body is built per reach from the projected values
            let pvars: Vec<PTerm> = vars.iter().map(|v| env_get(env, *v)).collect();
            let vars2 = vars.clone();
            let body2 = body.clone();
            let env2 = env.clone();
            let cx2 = cx.clone();
            let f: Box<dyn Fn(&[PTerm]) -> K> = Box::new(move |projected: &[PTerm]| {
                let mut env3 = env2.clone();
                for (v, t) in vars2.iter().zip(projected.iter()) {
                    env_set(&mut env3, *v, t.clone());
                }
                let lists: Vec<Vec<K>> = build_seq::<K>(&body2, &env3, &cx2).into_iter().map(|g| vec![g]).collect();
                let refs: Vec<&[K]> = lists.iter().map(|v| v.as_slice()).collect();
                GoalCast::cast_into(InferredConj::<SimUser, Eng, K>::from_conjunctions(&refs))
            });
            GoalCast::cast_into(Project::<SimUser, Eng, K>::new(pvars, f))
        }
        G::Prim(f, a, b) => K::dynamic(Rc::new(PrimGoal {
            f: *f,
            inp: term(a, env),
            out: term(b, env),
        })),
        // ---- CLP(FD)
        G::Dom(t, vals) => {
            let v: Vec<isize> = vals.iter().map(|x| *x as isize).collect();
            GoalCast::cast_into(rel::clpfd::infd::infd::<SimUser, Eng, K>(term(t, env), &v))
        }
        G::DomRange(t, lo, hi) => GoalCast::cast_into(rel::clpfd::infd::infdrange::<SimUser, Eng, K>(
            term(t, env),
            &((*lo as isize)..=(*hi as isize)),
        )),
        G::Ltefd(a, b) => {
            GoalCast::cast_into(rel::clpfd::ltefd::ltefd::<SimUser, Eng, K>(term(a, env), term(b, env)))
        }
        G::Ltfd(a, b) => {
            GoalCast::cast_into(rel::clpfd::ltfd::ltfd::<SimUser, Eng, K>(term(a, env), term(b, env)))
        }
        G::Plusfd(a, b, c) => GoalCast::cast_into(rel::clpfd::plusfd::plusfd::<SimUser, Eng, K>(
            term(a, env),
            term(b, env),
            term(c, env),
        )),
        G::Minusfd(a, b, c) => GoalCast::cast_into(rel::clpfd::minusfd::minusfd::<SimUser, Eng, K>(
            term(a, env),
            term(b, env),
            term(c, env),
        )),
        G::Timesfd(a, b, c) => GoalCast::cast_into(rel::clpfd::timesfd::timesfd::<SimUser, Eng, K>(
            term(a, env),
            term(b, env),
            term(c, env),
        )),
        G::Diseqfd(a, b) => GoalCast::cast_into(rel::clpfd::diseqfd::diseqfd::<SimUser, Eng, K>(
            term(a, env),
            term(b, env),
        )),
        G::Distinctfd(ts) => {
            let l: PTerm = LTerm::from_vec(ts.iter().map(|t| term(t, env)).collect());
            GoalCast::cast_into(rel::clpfd::distinctfd::distinctfd::<SimUser, Eng, K>(l))
        }
        // ---- CLP(Z)
        G::Plusz(a, b, c) => GoalCast::cast_into(rel::clpz::plusz::plusz::<SimUser, Eng, K>(
            term(a, env),
            term(b, env),
            term(c, env),
        )),
        G::Timesz(a, b, c) => GoalCast::cast_into(rel::clpz::timesz::timesz::<SimUser, Eng, K>(
            term(a, env),
            term(b, env),
            term(c, env),
        )),
        // ---- user state
        G::UserTag(tag) => {
            let tag = *tag;
            fngoal::<K>(Box::new(move |_solver, mut state| {
                state.user_state.path.push(tag);
                Stream::unit(Box::new(state))
            }))
        }
        G::Observe(id) => {
            let id = *id;
            let qlist: PTerm = LTerm::from_vec(cx.qvars.iter().cloned().collect());
            fngoal::<K>(Box::new(move |_solver, state| {
                let walked = state.smap_ref().walk_star(&qlist);
                let t = crate::engine::canon_term(&walked);
                OBSERVED.with(|o| o.borrow_mut().push((id, t)));
                OBSERVED_USER.with(|o| o.borrow_mut().push(user_snap(&state)));
                Stream::unit(Box::new(state))
            }))
        }
        G::Probe(_id) => fngoal::<K>(Box::new(move |_solver, mut state| {
            check_user_invariants(&mut state);
            Stream::unit(Box::new(state))
        })),
    }
}

/// C22 invariant, evaluated in whatever state reaches a probe (and again at every answer).
pub fn check_user_invariants(state: &mut PState) {
    state.user_state.probes_run += 1;
    PROBES_RUN.with(|p| p.set(p.get() + 1));
    let stored = state.cstore_ref().iter().count() as i64;
    let with = state.user_state.with_calls as i64;
    let take = state.user_state.take_calls as i64;
    let mut found: Option<String> = None;
    if with - take != stored {
        found = Some(format!(
            "with_constraint calls {} - take_constraint calls {} != {} stored constraints",
            with, take, stored
        ));
    } else if let Some(v) = &state.user_state.ext_violation {
        found = Some(v.clone());
    }
    if let Some(v) = found {
        PROBE_LOG.with(|l| l.borrow_mut().push(v.clone()));
        if state.user_state.probe_violation.is_none() {
            state.user_state.probe_violation = Some(v);
        }
    }
}

/// The whole query goal, exactly as `proto_vulcan_query!` lays it out.
pub fn build_query(p: &Program) -> PQuery {
    let (qvars, goal) = build_query_parts(p);
    Query::new(qvars, goal)
}

/// The query variables and the whole query goal (for driving a `Solver` directly).
pub fn build_query_parts(p: &Program) -> (Vec<PTerm>, PGoal) {
    use proto_vulcan::relation as rel;
    let mut env: Env = Vec::new();
    let mut qvars: Vec<PTerm> = vec![];
    for i in 0..p.nq {
        let v: PTerm = LTerm::var("q");
        env_set(&mut env, i, v.clone());
        qvars.push(v);
    }
    let cx = Ctx {
        defs: Rc::new(p.defs.clone()),
        qvars: Rc::new(qvars.clone()),
    };
    let body: Vec<PGoal> = build_seq::<PGoal>(&p.body, &env, &cx);
    let goal = wrap_query_goal(&qvars, body);
    (qvars, goal)
}

/// The boilerplate `proto_vulcan_query!` puts around a query body: a fresh `__query__` unified
/// with the list of query variables, the body, then reification.
pub fn wrap_query_goal(qvars: &[PTerm], body: Vec<PGoal>) -> PGoal {
    use proto_vulcan::relation as rel;
    let qvars: Vec<PTerm> = qvars.to_vec();
    let query_var: PTerm = LTerm::var("__query__");
    let parts: [PGoal; 3] = [
        GoalCast::cast_into(rel::eq::eq::<SimUser, Eng, PGoal>(
            query_var.clone(),
            LTerm::from_array(&qvars),
        )),
        Conj::from_array(&body),
        proto_vulcan::state::reify(query_var.clone()),
    ];
    let inner: PGoal = GoalCast::cast_into(InferredConj::<SimUser, Eng, PGoal>::from_array(&parts));
    GoalCast::cast_into(Fresh::<SimUser, Eng, PGoal>::new(vec![query_var], inner))
}

/// What `ResultIterator::next` does with a final state, for harness code that drives a `Solver`
/// itself (to fork streams and to look at the user state of answer states).
pub fn row_of_state(state: &PState, qvars: &[PTerm]) -> Row {
    let smap = state.smap_ref();
    let purified = state.cstore_ref().clone().purify(smap).normalize();
    let reified = Rc::new(purified.walk_star(smap));
    Row(qvars
        .iter()
        .map(|v| LResult::<SimUser, Eng>(smap.walk_star(v), Rc::clone(&reified)))
        .collect())
}

// ---------------------------------------------------------------------------------------------
// Simulated parties

/// A leaf goal whose answers, their timing and their delivery shape are scripted.
#[derive(Debug, Clone)]
pub struct SimLeaf {
    leaf: Leaf,
    target: PTerm,
    values: Vec<PTerm>,
    dfs: bool,
}

#[derive(Debug, Clone)]
struct StallGoal {
    dfs: bool,
}

impl Solve<SimUser, Eng> for StallGoal {
    fn solve(&self, _solver: &PSolver, state: PState) -> PStream {
        stall_stream(self.dfs, state)
    }
}

/// Operator bodies are lists of conjunctions (`&[&[G]]`). The macros pass one goal per inner slice;
/// API users may pass several. An odd number (>= 3) of goals is grouped in pairs, everything else
/// stays one goal per slice, so that both the outer and the inner fold of `from_conjunctions` run.
fn group<T>(goals: Vec<T>) -> Vec<Vec<T>> {
    let pairs = goals.len() >= 3 && goals.len() % 2 == 1;
    let mut out: Vec<Vec<T>> = Vec::new();
    for g in goals {
        match out.last_mut() {
            Some(last) if pairs && last.len() < 2 => last.push(g),
            _ => out.push(vec![g]),
        }
    }
    out
}

fn stall_stream(dfs: bool, state: PState) -> PStream {
    if dfs {
        Stream::pause_dfs(Box::new(state), DFSGoal::dynamic(Rc::new(StallGoal { dfs })))
    } else {
        Stream::pause(Box::new(state), Goal::dynamic(Rc::new(StallGoal { dfs })))
    }
}

fn delays(mut s: PStream, n: u8) -> PStream {
    for _ in 0..n {
        s = Stream::delay(s);
    }
    s
}

impl SimLeaf {
    fn restart(&self, state: PState) -> PStream {
        if self.dfs {
            Stream::pause_dfs(Box::new(state), DFSGoal::dynamic(Rc::new(self.clone())))
        } else {
            Stream::pause(Box::new(state), Goal::dynamic(Rc::new(self.clone())))
        }
    }

    fn tail_stream(&self, state: &PState) -> PStream {
        match self.leaf.tail {
            Tail::End => delays(Stream::empty(), self.leaf.end_latency),
            Tail::Stall => stall_stream(self.dfs, state.clone()),
            Tail::Flood => self.restart(state.clone()),
        }
    }

    fn eq_goal_stream(&self, state: PState, i: usize) -> PLazyStream {
        use proto_vulcan::relation::eq::eq;
        if self.dfs {
            let g: PDfsGoal = GoalCast::cast_into(eq::<SimUser, Eng, PDfsGoal>(
                self.target.clone(),
                self.values[i].clone(),
            ));
            LazyStream::pause_dfs(Box::new(state), g)
        } else {
            let g: PGoal = GoalCast::cast_into(eq::<SimUser, Eng, PGoal>(
                self.target.clone(),
                self.values[i].clone(),
            ));
            LazyStream::pause(Box::new(state), g)
        }
    }
}

impl Solve<SimUser, Eng> for SimLeaf {
    fn solve(&self, _solver: &PSolver, state: PState) -> PStream {
        let n = self.values.len();
        match self.leaf.shape {
            Shape::Chain => {
                let mut stream = self.tail_stream(&state);
                let plain_end = self.leaf.tail == Tail::End && self.leaf.end_latency == 0;
                let mut last = true;
                for i in (0..n).rev() {
                    if let Ok(s) = state.clone().unify(&self.target, &self.values[i]) {
                        stream = if last && plain_end {
                            Stream::unit(Box::new(s))
                        } else {
                            Stream::cons(Box::new(s), LazyStream::delay(stream))
                        };
                        last = false;
                    }
                    stream = delays(stream, self.leaf.answers[i].latency);
                }
                stream
            }
            Shape::Pauses => {
                let mut stream = self.tail_stream(&state);
                for i in (0..n).rev() {
                    let mut first = self.eq_goal_stream(state.clone(), i);
                    for _ in 0..self.leaf.answers[i].latency {
                        first = LazyStream::delay(Stream::Lazy(first));
                    }
                    stream = if self.dfs {
                        Stream::lazy_mplus_dfs(first, LazyStream::delay(stream))
                    } else {
                        Stream::lazy_mplus(first, LazyStream::delay(stream))
                    };
                }
                stream
            }
            Shape::Iter => Stream::iterator(Box::new(LeafIter {
                leaf: self.clone(),
                state,
                idx: 0,
            })),
        }
    }
}

#[derive(Clone)]
struct LeafIter {
    leaf: SimLeaf,
    state: PState,
    idx: usize,
}

impl StreamIterator<SimUser, Eng> for LeafIter {
    fn clone_box(&self) -> Box<dyn StreamIterator<SimUser, Eng>> {
        Box::new(self.clone())
    }

    fn next(&mut self, _solver: &PSolver) -> Option<PStream> {
        let n = self.leaf.values.len();
        if self.idx >= n {
            match self.leaf.leaf.tail {
                Tail::End => {
                    if (self.idx - n) < self.leaf.leaf.end_latency as usize {
                        self.idx += 1;
                        return Some(Stream::empty());
                    }
                    return None;
                }
                Tail::Stall => return Some(Stream::empty()),
                Tail::Flood => {
                    if n == 0 {
                        return Some(Stream::empty());
                    }
                    self.idx = 0;
                }
            }
        }
        let i = self.idx;
        self.idx += 1;
        let s = match self.state.clone().unify(&self.leaf.target, &self.leaf.values[i]) {
            Ok(s) => Stream::unit(Box::new(s)),
            Err(_) => Stream::empty(),
        };
        Some(delays(s, self.leaf.leaf.answers[i].latency))
    }
}

/// Non-relational primitive: reads its input term as it is (no walk), like the library's own
/// project tests do.
#[derive(Debug)]
struct PrimGoal {
    f: PFn,
    inp: PTerm,
    out: PTerm,
}

impl Solve<SimUser, Eng> for PrimGoal {
    fn solve(&self, _solver: &PSolver, state: PState) -> PStream {
        let unify_out = |state: PState, v: PTerm| match state.unify(&v, &self.out) {
            Ok(s) => Stream::unit(Box::new(s)),
            Err(_) => Stream::empty(),
        };
        match (self.f, self.inp.as_ref()) {
            (PFn::Square, LTermInner::Val(LValue::Number(n))) => unify_out(state, LTerm::from(n * n)),
            (PFn::Succ, LTermInner::Val(LValue::Number(n))) => unify_out(state, LTerm::from(n + 1)),
            (PFn::HeadSquare, LTermInner::Cons(h, _)) => match h.as_ref() {
                LTermInner::Val(LValue::Number(n)) => unify_out(state, LTerm::from(n * n)),
                _ => Stream::empty(),
            },
            (PFn::Square, _) | (PFn::Succ, _) | (PFn::HeadSquare, _) => Stream::empty(),
            (PFn::IsNumber, LTermInner::Val(LValue::Number(_))) => Stream::unit(Box::new(state)),
            (PFn::IsNumber, _) => Stream::empty(),
            (PFn::IsVar, LTermInner::Var(_, _)) => Stream::unit(Box::new(state)),
            (PFn::IsVar, _) => Stream::empty(),
            (PFn::IsGround, _) => {
                if syntactically_ground(&self.inp) {
                    Stream::unit(Box::new(state))
                } else {
                    Stream::empty()
                }
            }
        }
    }
}

/// No variable anywhere in the term as it is written (no substitution consulted).
fn syntactically_ground(t: &PTerm) -> bool {
    match t.as_ref() {
        LTermInner::Var(_, _) => false,
        LTermInner::Cons(h, tl) => syntactically_ground(h) && syntactically_ground(tl),
        LTermInner::Compound(_) => match crate::cmpd::parts(t) {
            Some((_, fields)) => fields.iter().all(syntactically_ground),
            None => true,
        },
        _ => true,
    }
}
