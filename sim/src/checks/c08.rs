//! C08 — committed-choice operators keep exactly the committed answers.
use crate::ast::*;
use crate::checks::c06::{fault_facts, show_terms};
use crate::engine::{run_program, End};
use crate::framework::*;
use crate::gen_search::{self, Gen, Opts};
use crate::refint::{self, R1};
use crate::valid;
use serde_json::json;
use std::collections::BTreeMap;

pub struct C08Check;
pub static C08: C08Check = C08Check;

fn forbidden(p: &Program) -> bool {
    p.any(|g| {
        matches!(
            g,
            G::Neq(..)
                | G::Anyo(_)
                | G::Project(..)
                | G::Prim(..)
                | G::Dom(..)
                | G::DomRange(..)
                | G::Ltefd(..)
                | G::Ltfd(..)
                | G::Plusfd(..)
                | G::Minusfd(..)
                | G::Timesfd(..)
                | G::Diseqfd(..)
                | G::Distinctfd(..)
                | G::Plusz(..)
                | G::Timesz(..)
                | G::Call(Rel::Always, _)
                | G::Call(Rel::Never, _)
        )
    })
}

/// Infinite leaves are only allowed as the head goal of a condu clause / sole goal of onceo.
fn infinite_only_in_cut_heads(p: &Program) -> bool {
    fn ok(g: &G, cut_head: bool) -> bool {
        match g {
            G::Leaf(l) => match l.tail {
                Tail::End => true,
                Tail::Flood => cut_head && !l.answers.is_empty(),
                Tail::Stall => false,
            },
            G::Condu(cs) => cs.iter().all(|c| {
                c.iter().enumerate().all(|(i, x)| ok(x, i == 0))
            }),
            G::Onceo(gs) => gs.iter().all(|x| ok(x, gs.len() == 1)),
            other => other.children().iter().all(|c| ok(c, false)),
        }
    }
    p.body.iter().all(|g| ok(g, false)) && p.defs.iter().all(|d| d.body.iter().all(|g| ok(g, false)))
}

impl Check for C08Check {
    fn id(&self) -> &'static str {
        "C08"
    }

    fn cases(&self, tier: Tier) -> usize {
        match tier {
            Tier::Quick => 150_000,
            Tier::Thorough => 3_000_000,
        }
    }

    fn generate(&self, seed: u64, index: u64, tier: Tier) -> Case {
        let mut st = streams(seed, "C08", index);
        let mut o = Opts::finite_small();
        o.committed = true;
        o.for_loops = false;
        if tier == Tier::Thorough && st.workload.chance(1, 3) {
            o.max_depth = 4;
        }
        let program = {
            let mut g = Gen::new(&mut st.workload, &mut st.leaves, o);
            let mut p = g.program(false);
            if !valid::has_bfs_only(&p) {
                // make sure there is a committed-choice operator to look at
                let scope: Vec<VarIx> = (0..p.nq).collect();
                let c = g.goal_committed(&scope, 2);
                let at = g.w.below(p.body.len() + 1);
                p.body.insert(at, c);
            }
            p
        };
        let exact = st.schedule.chance(1, 2);
        let mut cfg = if exact { crate::driver::SimCfg::exact(200_000) } else { gen_search::sim_cfg(&mut st.schedule, 200_000) };
        // a head that floods without ever unifying spins inside trunc: bound that quickly
        cfg.work_cap = 400_000;
        Case {
            property: "C08".into(),
            oracle: "choice-function".into(),
            program,
            cfg,
            extra: json!({}),
        }
    }

    fn valid(&self, case: &Case) -> bool {
        valid::program_ok(&case.program)
            && !forbidden(&case.program)
            && infinite_only_in_cut_heads(&case.program)
            && case.program.any(|g| matches!(g, G::Conda(_) | G::Condu(_) | G::Onceo(_)))
    }

    fn rule(&self) -> String {
        "case = search program containing conda / condu / onceo whose head goals have 0, 1 or many answers delivered late, in \
         bursts, through iterators, from dfs blocks or (condu/onceo only) from never-ending producers, with arbitrary rest \
         goals, nested under conjunction and disjunction, x (reorders, yields). Oracle: the reference interpreter evaluates \
         conda as soft-cut and keeps *every* head answer of condu/onceo, logging the choice; the engine's answer multiset \
         must equal the reference multiset selected by some choice function that picks exactly one head answer per \
         evaluated condu/onceo, and the first one wherever the head is order-deterministic (single chain/iterator leaf, dfs \
         block, atomic goal). distinct = (program, decision trace); non-trivial = a committed-choice operator was \
         evaluated with a head that has an answer and at least one answer was compared or an empty result verified"
            .into()
    }

    fn run(&self, case: &Case) -> CaseResult {
        let mut facts = Facts::default();
        fault_facts(&case.program, &mut facts);
        let p = &case.program;
        let r1 = R1::new(
            p,
            refint::Opts { all_choices: true, fuel: 30_000, unfold: 1, ..Default::default() },
        )
        .run();
        if r1.cut {
            return CaseResult { verdict: Verdict::Inconclusive("reference out of fuel".into()), facts };
        }
        let run = run_program(p, &case.cfg, usize::MAX, false);
        facts.trace_hash = run.stats.trace_hash;
        facts.stats.push(run.stats.clone());
        match &run.end {
            End::Exhausted => {}
            End::WorkCap => return CaseResult { verdict: Verdict::Inconclusive("work cap".into()), facts },
            End::Panic(pi) => {
                return CaseResult {
                    verdict: Verdict::Violation { class: format!("panic@{}", pi.location), detail: pi.message.clone() },
                    facts,
                }
            }
            _ => {
                return CaseResult {
                    verdict: Verdict::Violation {
                        class: "finite-tree-did-not-terminate".into(),
                        detail: format!("still running after {} quanta", run.stats.quanta),
                    },
                    facts,
                }
            }
        }
        let mut got: Vec<T> = run.answers.iter().map(|a| a.term.clone()).collect();
        got.sort();
        facts.answers_compared += got.len() as u64;

        // choice points that matter: those some reference answer depends on
        let cps = &r1.choice_points;
        let space: u64 = cps.iter().map(|c| if c.forced_first { 1 } else { c.heads.max(1) as u64 }).product();
        if cps.len() > 14 || space > 20_000 {
            return CaseResult { verdict: Verdict::Inconclusive("too many choice functions".into()), facts };
        }
        // enumerate choice functions
        let free: Vec<&refint::ChoicePoint> = cps.iter().filter(|c| !c.forced_first && c.heads > 1).collect();
        let mut pick: BTreeMap<u32, u32> = cps.iter().map(|c| (c.id, 0u32)).collect();
        let mut counter = vec![0u32; free.len()];
        let mut matched = false;
        let mut closest: Option<Vec<T>> = None;
        loop {
            for (i, c) in free.iter().enumerate() {
                pick.insert(c.id, counter[i]);
            }
            let mut sel: Vec<T> = r1
                .answers
                .iter()
                .filter(|a| a.choices.iter().all(|(cp, i)| pick.get(cp) == Some(i)))
                .map(|a| a.term.clone())
                .collect();
            sel.sort();
            if sel == got {
                matched = true;
                break;
            }
            if closest.is_none() {
                closest = Some(sel);
            }
            // next
            let mut k = 0;
            loop {
                if k == free.len() {
                    break;
                }
                counter[k] += 1;
                if counter[k] < free[k].heads {
                    break;
                }
                counter[k] = 0;
                k += 1;
            }
            if k == free.len() {
                break;
            }
        }
        if !matched {
            let expect = closest.unwrap_or_default();
            let class = if got.len() > expect.len() && free.is_empty() {
                "committed-choice-extra-answers"
            } else if got.len() < expect.len() && free.is_empty() {
                "committed-choice-lost-answers"
            } else {
                "committed-choice-answers-differ"
            };
            return CaseResult {
                verdict: Verdict::Violation {
                    class: class.into(),
                    detail: format!(
                        "engine {:?}; reference with first-answer choices {:?}; {} choice points ({} free)",
                        show_terms(&got),
                        show_terms(&expect),
                        cps.len(),
                        free.len()
                    ),
                },
                facts,
            };
        }
        facts.nontrivial = cps.iter().any(|c| c.heads >= 1) || p.any(|g| matches!(g, G::Conda(_)));
        CaseResult { verdict: Verdict::Pass, facts }
    }
}
