//! C08 — committed-choice operators keep exactly the committed answers.
use crate::ast::*;
use crate::checks::c06::{fault_facts, show_terms};
use crate::engine::{run_program, End};
use crate::framework::*;
use crate::gen_search::{self, Gen, Opts};
use crate::refint::{self, R1};
use crate::valid;
use serde_json::json;

pub struct C08Check;
pub static C08: C08Check = C08Check;

fn forbidden(p: &Program) -> bool {
    p.any(|g| {
        matches!(
            g,
            G::Neq(..)
                | G::Anyo(_)
                | G::Project(..)
                | G::Prim(..)
                | G::Dom(..)
                | G::DomRange(..)
                | G::Ltefd(..)
                | G::Ltfd(..)
                | G::Plusfd(..)
                | G::Minusfd(..)
                | G::Timesfd(..)
                | G::Diseqfd(..)
                | G::Distinctfd(..)
                | G::Plusz(..)
                | G::Timesz(..)
                | G::Call(Rel::Always, _)
                | G::Call(Rel::Never, _)
        )
    })
}

/// Infinite leaves are only allowed as the head goal of a condu clause / sole goal of onceo.
fn infinite_only_in_cut_heads(p: &Program) -> bool {
    fn ok(g: &G, cut_head: bool) -> bool {
        match g {
            G::Leaf(l) => match l.tail {
                Tail::End => true,
                Tail::Flood => cut_head && !l.answers.is_empty(),
                Tail::Stall => false,
            },
            G::Condu(cs) => cs.iter().all(|c| {
                c.iter().enumerate().all(|(i, x)| ok(x, i == 0))
            }),
            G::Onceo(gs) => gs.iter().all(|x| ok(x, gs.len() == 1)),
            other => other.children().iter().all(|c| ok(c, false)),
        }
    }
    p.body.iter().all(|g| ok(g, false)) && p.defs.iter().all(|d| d.body.iter().all(|g| ok(g, false)))
}

impl Check for C08Check {
    fn id(&self) -> &'static str {
        "C08"
    }

    fn cases(&self, tier: Tier) -> usize {
        match tier {
            Tier::Quick => 150_000,
            Tier::Thorough => 3_000_000,
        }
    }

    fn generate(&self, seed: u64, index: u64, tier: Tier) -> Case {
        if let Some(c) = crate::surface::case_for("C08", seed, index) {
            return c;
        }
        let mut st = streams(seed, "C08", index);
        let mut o = Opts::finite_small();
        o.committed = true;
        o.for_loops = false;
        if tier == Tier::Thorough && st.workload.chance(1, 3) {
            o.max_depth = 4;
        }
        let program = {
            let mut g = Gen::new(&mut st.workload, &mut st.leaves, o);
            let mut p = g.program(false);
            if !valid::has_bfs_only(&p) {
                // make sure there is a committed-choice operator to look at
                let scope: Vec<VarIx> = (0..p.nq).collect();
                let c = g.goal_committed(&scope, 2);
                let at = g.w.below(p.body.len() + 1);
                p.body.insert(at, c);
            }
            p
        };
        let exact = st.schedule.chance(1, 2);
        let mut cfg = if exact { crate::driver::SimCfg::exact(200_000) } else { gen_search::sim_cfg(&mut st.schedule, 200_000) };
        // a head that floods without ever unifying spins inside trunc: bound that quickly
        cfg.work_cap = 400_000;
        Case {
            property: "C08".into(),
            oracle: "choice-function".into(),
            program,
            cfg,
            extra: json!({}),
        }
    }

    fn valid(&self, case: &Case) -> bool {
        if crate::surface::is_surface(case) {
            return crate::surface::valid(case);
        }
        valid::program_ok(&case.program)
            && !forbidden(&case.program)
            && infinite_only_in_cut_heads(&case.program)
            && case.program.any(|g| matches!(g, G::Conda(_) | G::Condu(_) | G::Onceo(_)))
    }

    fn rule(&self) -> String {
        "Every 64th case is one of the macro-written surface programs for this property (sim/src/surface.rs: matcha/matchu arms incl. bare wildcard arms, conda with three clauses, condu, onceo over a conjunction) compared with a hand-listed expectation, under the same schedules. case = search program containing conda / condu / onceo whose head goals have 0, 1 or many answers delivered late, in \
         bursts, through iterators, from dfs blocks or (condu/onceo only) from never-ending producers, with arbitrary rest \
         goals, nested under conjunction and disjunction, x (reorders, yields). Oracle: the reference interpreter evaluates \
         conda as soft-cut and condu/onceo under an explicit choice script (which head answer each evaluated condu/onceo \
         keeps; always the first one where the head is order-deterministic: single chain/iterator leaf, dfs block, atomic \
         goal); the check walks the tree of choice scripts depth-first and the engine's answer multiset must equal the \
         reference multiset of some script (<= 400 reference evaluations, else inconclusive). distinct = (program, decision trace); non-trivial = a committed-choice operator was \
         evaluated with a head that has an answer and at least one answer was compared or an empty result verified"
            .into()
    }

    fn run(&self, case: &Case) -> CaseResult {
        if crate::surface::is_surface(case) {
            return crate::surface::run_case(case);
        }
        let mut facts = Facts::default();
        fault_facts(&case.program, &mut facts);
        let p = &case.program;
        // size of the tree per the reference (first-answer choices), for the engine's step budget
        let r0 = R1::new(p, refint::Opts { choice_script: None, fuel: 30_000, unfold: 1, ..Default::default() }).run();
        if r0.cut {
            return CaseResult { verdict: Verdict::Inconclusive("reference out of fuel".into()), facts };
        }
        let mut cfg = case.cfg.clone();
        cfg.quanta_budget = finite_budget(4 * r0.steps, 4 * r0.answers.len());
        // (a head that floods without ever unifying spins inside trunc until the work cap: keep it low)
        cfg.work_cap = cfg.work_cap.max(cfg.quanta_budget.saturating_mul(3));
        let run = run_program(p, &cfg, usize::MAX, false);
        if run.end == End::Exhausted {
            facts.metrics.insert("quanta_needed_over_budget", run.stats.quanta as f64 / cfg.quanta_budget as f64);
        }
        facts.trace_hash = run.stats.trace_hash;
        facts.stats.push(run.stats.clone());
        match &run.end {
            End::Exhausted => {}
            End::WorkCap => return CaseResult { verdict: Verdict::Inconclusive("work cap".into()), facts },
            End::Panic(pi) => {
                return CaseResult {
                    verdict: Verdict::Violation { class: format!("panic@{}", pi.location), detail: pi.message.clone() },
                    facts,
                }
            }
            _ => {
                return CaseResult {
                    verdict: Verdict::Violation {
                        class: "finite-tree-did-not-terminate".into(),
                        detail: format!("still running after {} quanta", run.stats.quanta),
                    },
                    facts,
                }
            }
        }
        let mut got: Vec<T> = run.answers.iter().map(|a| a.term.clone()).collect();
        got.sort();
        facts.answers_compared += got.len() as u64;

        // Enumerate the reference's committed choices: a depth-first walk over choice scripts.
        // Every run follows its script (first answer beyond it and at order-deterministic heads)
        // and reports the choice points it met; alternatives are explored at the positions the
        // script did not fix.
        let mut stack: Vec<Vec<u32>> = vec![vec![]];
        let mut runs = 0u32;
        let mut matched = false;
        let mut first_expect: Option<Vec<T>> = None;
        let mut cps_seen = 0usize;
        let mut free_seen = 0usize;
        while let Some(script) = stack.pop() {
            runs += 1;
            if runs > 400 {
                return CaseResult { verdict: Verdict::Inconclusive("too many choice functions".into()), facts };
            }
            let fixed = script.len();
            let r1 = R1::new(
                p,
                refint::Opts { choice_script: Some(script), fuel: 30_000, unfold: 1, ..Default::default() },
            )
            .run();
            if r1.cut {
                return CaseResult { verdict: Verdict::Inconclusive("reference out of fuel".into()), facts };
            }
            let mut sel: Vec<T> = r1.answers.iter().map(|a| a.term.clone()).collect();
            sel.sort();
            cps_seen = cps_seen.max(r1.choice_points.len());
            if sel == got {
                matched = true;
                break;
            }
            if first_expect.is_none() {
                first_expect = Some(sel);
            }
            let picks: Vec<u32> = r1.choice_points.iter().map(|c| c.picked).collect();
            for i in fixed..r1.choice_points.len() {
                let c = &r1.choice_points[i];
                if c.forced_first {
                    continue;
                }
                free_seen += 1;
                for alt in 1..c.heads {
                    let mut s2 = picks[..i].to_vec();
                    s2.push(alt);
                    stack.push(s2);
                }
            }
        }
        if !matched {
            let expect = first_expect.unwrap_or_default();
            let class = if got.len() > expect.len() && free_seen == 0 {
                "committed-choice-extra-answers"
            } else if got.len() < expect.len() && free_seen == 0 {
                "committed-choice-lost-answers"
            } else {
                "committed-choice-answers-differ"
            };
            return CaseResult {
                verdict: Verdict::Violation {
                    class: class.into(),
                    detail: format!(
                        "engine {:?}; reference with first-answer choices {:?}; {} choice points, {} reference evaluations",
                        show_terms(&got),
                        show_terms(&expect),
                        cps_seen,
                        runs
                    ),
                },
                facts,
            };
        }
        facts.nontrivial = cps_seen >= 1 || p.any(|g| matches!(g, G::Conda(_)));
        CaseResult { verdict: Verdict::Pass, facts }
    }
}
