pub mod c06;

use crate::framework::Check;

pub fn all() -> Vec<&'static dyn Check> {
    vec![&c06::C06]
}

pub fn by_id(id: &str) -> Option<&'static dyn Check> {
    all().into_iter().find(|c| c.id() == id)
}
