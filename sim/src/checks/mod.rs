pub mod c02;
pub mod c04;
pub mod c05;
pub mod c06;
pub mod c07;
pub mod c08;
pub mod c09;
pub mod c10;
pub mod c11;
pub mod c15;
pub mod c16;
pub mod c19;
pub mod c22;
pub mod c23;

use crate::framework::Check;

pub fn all() -> Vec<&'static dyn Check> {
    vec![
        &c02::C02, &c04::C04, &c05::C05, &c06::C06, &c07::C07, &c08::C08, &c09::C09, &c10::C10, &c11::C11, &c15::C15, &c16::C16, &c16::C17,
        &c19::C19, &c22::C22, &c23::C23,
    ]
}

pub fn by_id(id: &str) -> Option<&'static dyn Check> {
    all().into_iter().find(|c| c.id() == id)
}
