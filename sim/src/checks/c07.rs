//! C07 — interleaving disjunction is fair and productive (bounded liveness).
use crate::ast::*;
use crate::checks::c06::fault_facts;
use crate::driver::SimCfg;
use crate::engine::{run_program, End};
use crate::framework::*;
use crate::gen_search;
use crate::rng::Rng;
use crate::valid;
use serde_json::json;
use std::collections::BTreeMap;

pub struct C07Check;
pub static C07: C07Check = C07Check;

const M: usize = 3;
const ALONE_BUDGET: u64 = 20_000;

struct Gen<'a> {
    w: &'a mut Rng,
    l: &'a mut Rng,
    next_leaf: u32,
}

impl<'a> Gen<'a> {
    fn leaf(&mut self, tail: Tail, min_answers: usize) -> G {
        let id = self.next_leaf;
        self.next_leaf += 1;
        let n = min_answers + self.l.below(3);
        let answers = (0..n)
            .map(|i| LeafAns {
                value: T::I(1000 + 10 * id as i64 + i as i64),
                latency: if self.l.chance(1, 2) { 0 } else { self.l.below(7) as u8 },
            })
            .collect();
        let shape = match self.l.below(4) {
            0 => Shape::Pauses,
            1 => Shape::Iter,
            _ => Shape::Chain,
        };
        G::Leaf(Leaf {
            id,
            target: T::V(0),
            answers,
            shape,
            tail,
            end_latency: if self.l.chance(1, 3) { self.l.below(5) as u8 } else { 0 },
        })
    }

    fn finite(&mut self) -> G {
        match self.w.below(4) {
            0 => {
                let id = self.next_leaf;
                self.next_leaf += 1;
                G::Eq(T::V(0), T::I(1000 + 10 * id as i64))
            }
            1 => {
                let id = self.next_leaf;
                self.next_leaf += 1;
                let base = 1000 + 10 * id as i64;
                G::Call(Rel::Member, vec![T::V(0), T::list(vec![T::I(base), T::I(base + 1)])])
            }
            _ => self.leaf(Tail::End, 1),
        }
    }

    fn producer(&mut self) -> G {
        match self.w.below(5) {
            0 => {
                let f = self.finite();
                G::Anyo(vec![f])
            }
            4 => {
                // a loop whose body has a productive branch and a silently diverging one: every
                // round must still be reached (the loop is a fair disjunction of its rounds)
                let f = self.finite();
                let d = self.diverger();
                let cs = if self.w.chance(1, 2) { vec![vec![f], vec![d]] } else { vec![vec![d], vec![f]] };
                G::Anyo(vec![G::Conde(cs)])
            }
            1 => {
                let id = self.next_leaf;
                self.next_leaf += 1;
                G::Conj(vec![G::Call(Rel::Always, vec![]), G::Eq(T::V(0), T::I(1000 + 10 * id as i64))])
            }
            _ => self.leaf(Tail::Flood, 1),
        }
    }

    fn diverger(&mut self) -> G {
        match self.w.below(5) {
            4 => {
                // a depth-first sub-search whose first alternative diverges silently: the block
                // never gets to its second alternative, and must not hold up its siblings either
                let stall = self.leaf(Tail::Stall, 0);
                let stall = match stall {
                    G::Leaf(mut l) => {
                        l.answers.clear();
                        G::Leaf(l)
                    }
                    other => other,
                };
                let id = self.next_leaf;
                self.next_leaf += 1;
                G::Dfs(vec![G::Conde(vec![vec![stall], vec![G::Eq(T::V(0), T::I(900_000 + id as i64))]])])
            }
            0 => G::Call(Rel::Never, vec![]),
            1 => G::Anyo(vec![G::Fail]),
            2 => self.leaf(Tail::Stall, 0),
            _ => {
                // infinitely many failures: a flood whose answers can never unify
                G::Conj(vec![G::Call(Rel::Always, vec![]), G::Fail])
            }
        }
    }

    fn branch(&mut self, depth: u32) -> G {
        let r = self.w.below(100);
        if depth > 0 && r < 25 {
            return self.disjunction(depth - 1);
        }
        if r < 50 {
            self.finite()
        } else if r < 80 {
            self.producer()
        } else {
            self.diverger()
        }
    }

    fn disjunction(&mut self, depth: u32) -> G {
        match self.w.below(5) {
            0 => {
                let a = self.branch(depth);
                let b = self.branch(depth);
                G::Disj(Box::new(a), Box::new(b))
            }
            1 => {
                let b = self.branch(depth);
                G::Anyo(vec![b])
            }
            _ => {
                let n = 2 + self.w.below(3);
                let cs = (0..n)
                    .map(|_| {
                        let b = self.branch(depth);
                        if self.w.chance(1, 4) {
                            // single-answer goal in front of the branch
                            vec![G::Fresh(vec![50], vec![G::Eq(T::V(50), T::I(1)), b])]
                        } else {
                            vec![b]
                        }
                    })
                    .collect();
                G::Conde(cs)
            }
        }
    }
}

/// (leaf id or pseudo id) -> the q values that identify answers of that alternative
fn value_owner(v: i64) -> Option<u32> {
    if v >= 1000 {
        Some(((v - 1000) / 10) as u32)
    } else {
        None
    }
}

/// All productive alternatives: (id, path program where every disjunction on the way keeps only
/// the alternative leading to it, number of mplus levels above it).
fn alternatives(g: &G, ctx: &dyn Fn(G) -> G, levels: u32, out: &mut Vec<(u32, G, u32)>) {
    match g {
        G::Leaf(l) => {
            if !l.answers.is_empty() {
                out.push((l.id, ctx(g.clone()), levels));
            }
        }
        G::Eq(T::V(0), T::I(v)) => {
            if let Some(id) = value_owner(*v) {
                out.push((id, ctx(g.clone()), levels));
            }
        }
        G::Call(Rel::Member, args) => {
            if let Some(T::Cons(h, _)) = args.get(1) {
                if let T::I(v) = **h {
                    if let Some(id) = value_owner(v) {
                        out.push((id, ctx(g.clone()), levels));
                    }
                }
            }
        }
        G::Conde(cs) => {
            for (i, c) in cs.iter().enumerate() {
                let c2 = c.clone();
                let wrap = move |inner: Vec<G>| ctx(G::Conj(inner));
                // the clause is a conjunction; find the branch goal inside it
                alternatives_in_conj(&c2, &wrap, levels + i as u32 + 1, out);
            }
        }
        G::Disj(a, b) => {
            alternatives(a, ctx, levels + 1, out);
            alternatives(b, ctx, levels + 2, out);
        }
        G::Anyo(gs) => {
            // The loop stays in the alternative's own program: run alone it yields its answers
            // round after round, and the first M of them (so: answers of later rounds too) must
            // also come out of the whole program. A loop is the disjunction of its rounds; round
            // k sits k levels deep, hence three levels for what the first M = 3 answers can need.
            let wrap = move |inner: Vec<G>| ctx(G::Anyo(inner));
            alternatives_in_conj(gs, &wrap, levels + 3, out);
        }
        G::Conj(gs) => {
            let wrap = move |inner: Vec<G>| ctx(G::Conj(inner));
            alternatives_in_conj(gs, &wrap, levels, out);
        }
        G::Fresh(vs, gs) => {
            let vs2 = vs.clone();
            let wrap = move |inner: Vec<G>| ctx(G::Fresh(vs2.clone(), inner));
            alternatives_in_conj(gs, &wrap, levels, out);
        }
        _ => {}
    }
}

fn alternatives_in_conj(gs: &[G], wrap: &dyn Fn(Vec<G>) -> G, levels: u32, out: &mut Vec<(u32, G, u32)>) {
    for (i, g) in gs.iter().enumerate() {
        let before: Vec<G> = gs[..i].to_vec();
        let after: Vec<G> = gs[i + 1..].to_vec();
        let ctx = move |inner: G| {
            let mut v = before.clone();
            v.push(inner);
            v.extend(after.iter().cloned());
            wrap(v)
        };
        alternatives(g, &ctx, levels, out);
    }
}

fn q_value(t: &T) -> Option<i64> {
    match t {
        T::Cons(h, _) => match **h {
            T::I(v) => Some(v),
            _ => None,
        },
        _ => None,
    }
}

impl Check for C07Check {
    fn id(&self) -> &'static str {
        "C07"
    }

    fn cases(&self, tier: Tier) -> usize {
        match tier {
            Tier::Quick => 400_000,
            Tier::Thorough => 6_000_000,
        }
    }

    fn generate(&self, seed: u64, index: u64, tier: Tier) -> Case {
        let mut st = streams(seed, "C07", index);
        if index % 16 == 3 {
            // Wide family: one flat conde of 9..=11 clauses, all but the last one or two infinite
            // (producers and silent divergers), the last ones a plain `q == v`. A clause at
            // position m gets a 1/2^m share, so its answer needs about 2^m quanta: cheap as long
            // as the goal itself is trivial, and the only way to see what happens to branches
            // that sit deep in the mplus tree for as long as the search runs.
            let mut g = Gen { w: &mut st.workload, l: &mut st.leaves, next_leaf: 0 };
            let n = 9 + g.w.below(3);
            let finite_tail = 1 + g.w.below(2);
            let mut clauses: Vec<Vec<G>> = vec![];
            for i in 0..n {
                let b = if i + finite_tail >= n {
                    let id = g.next_leaf;
                    g.next_leaf += 1;
                    G::Eq(T::V(0), T::I(1000 + 10 * id as i64))
                } else if g.w.chance(3, 5) {
                    g.producer()
                } else {
                    g.diverger()
                };
                clauses.push(vec![b]);
            }
            return Case {
                property: "C07".into(),
                oracle: "fair-wide".into(),
                program: Program { nq: 2, defs: vec![], body: vec![G::Conde(clauses)] },
                cfg: SimCfg::exact(4_000_000),
                extra: json!({}),
            };
        }
        // nesting 1..3 (3 is rare in the quick tier: the bound grows with 2^levels)
        let depth = match (tier, st.workload.below(8)) {
            (Tier::Thorough, 0..=2) => 3,
            (Tier::Thorough, _) => 2,
            (Tier::Quick, 0) => 3,
            (Tier::Quick, 1..=4) => 2,
            _ => 1,
        };
        let (root, suffix, prefix) = {
            let mut g = Gen { w: &mut st.workload, l: &mut st.leaves, next_leaf: 0 };
            let root = g.disjunction(depth);
            let suffix = if g.w.chance(1, 3) {
                // finite suffix on the second query variable
                let n = 1 + g.l.below(2);
                Some(G::Leaf(Leaf {
                    id: 800,
                    target: T::V(1),
                    answers: (0..n)
                        .map(|i| LeafAns { value: T::I(i as i64), latency: g.l.below(3) as u8 })
                        .collect(),
                    shape: Shape::Chain,
                    tail: Tail::End,
                    end_latency: 0,
                }))
            } else {
                None
            };
            let prefix = g.w.chance(1, 4);
            (root, suffix, prefix)
        };
        let mut body = vec![];
        if prefix {
            body.push(G::Fresh(vec![60], vec![G::Eq(T::V(60), T::I(7))]));
        }
        body.push(root);
        if let Some(s) = suffix {
            body.push(s);
        }
        let program = Program { nq: 2, defs: vec![], body };
        let perturbed = st.schedule.chance(1, 3);
        let cfg = if perturbed {
            gen_search::sim_cfg(&mut st.schedule, 4_000_000)
        } else {
            SimCfg::exact(4_000_000)
        };
        Case {
            property: "C07".into(),
            oracle: if perturbed { "fair-within-bound-perturbed" } else { "fair-within-bound" }.into(),
            program,
            cfg,
            extra: json!({}),
        }
    }

    fn valid(&self, case: &Case) -> bool {
        valid::program_ok(&case.program)
            && case.program.nq == 2
            && (case.oracle != "fair-within-bound-perturbed") == case.cfg.is_exact()
    }

    fn rule(&self) -> String {
        "case = disjunction tree (conde / disj / loop, nesting <= 2, <= 4 branches per node) whose branches are finite goals, \
         infinite producers with scripted latency and silent divergers (never(), stalled leaf, always()+fail), optionally \
         under a single-answer prefix and a finite suffix; every leaf value is unique so each answer names its alternative. \
         Oracle: each productive alternative is run alone (all disjunctions on its path reduced to it) and the quanta T for \
         its first <=3 answers recorded; in the whole program those answers must all appear within \
         B = K*2^m*(T+8)+2048 quanta (m = mplus levels above the alternative, K = 256, 1024 under yields/reorders; capped at 1.5M quanta, above which a timeout is inconclusive). \
         distinct = (program, decision trace); non-trivial = the tree has >= 2 productive alternatives or a diverger/producer next to one"
            .into()
    }

    fn run(&self, case: &Case) -> CaseResult {
        let mut facts = Facts::default();
        fault_facts(&case.program, &mut facts);
        let p = &case.program;
        // locate the root disjunction inside the body
        let mut alts: Vec<(u32, G, u32)> = vec![];
        {
            let wrap = |inner: Vec<G>| G::Conj(inner);
            alternatives_in_conj(&p.body, &wrap, 0, &mut alts);
        }
        if alts.is_empty() {
            return CaseResult { verdict: Verdict::Inconclusive("no productive alternative".into()), facts };
        }
        // the wide family has trivial goals at known depths: a small constant keeps the budget of a
        // starved case affordable (see quanta_needed_over_bound under metrics_max in the evidence)
        let k: u64 = if case.oracle == "fair-wide" {
            16
        } else if case.cfg.is_exact() {
            256
        } else {
            1024
        };
        // run every alternative alone
        let mut need: BTreeMap<i64, usize> = BTreeMap::new();
        let mut bound: u64 = 0;
        let mut detail_alone = vec![];
        for (id, alone_body, levels) in alts.iter() {
            let alone = Program { nq: p.nq, defs: vec![], body: vec![alone_body.clone()] };
            let mut cfg = case.cfg.clone();
            cfg.quanta_budget = ALONE_BUDGET;
            cfg.work_cap = ALONE_BUDGET * 64;
            let run = run_program(&alone, &cfg, M, false);
            facts.stats.push(run.stats.clone());
            if let End::Panic(pi) = &run.end {
                return CaseResult {
                    verdict: Verdict::Violation { class: format!("panic@{}", pi.location), detail: pi.message.clone() },
                    facts,
                };
            }
            if run.answers.is_empty() {
                continue;
            }
            let t_alone = *run.quanta_at.last().unwrap();
            for a in run.answers.iter() {
                if let Some(v) = q_value(&a.term) {
                    if value_owner(v) == Some(*id) {
                        *need.entry(v).or_insert(0) += 1;
                    }
                }
            }
            let m = (*levels).min(16);
            let b = k.saturating_mul(1u64 << m).saturating_mul(t_alone + 8) + 2048;
            detail_alone.push(format!("alt#{} alone: {} answers in {} quanta, m={}, B={}", id, run.answers.len(), t_alone, m, b));
            bound = bound.max(b);
        }
        if need.is_empty() {
            return CaseResult { verdict: Verdict::Inconclusive("no alternative answered alone".into()), facts };
        }
        // the simulation cannot afford more than this many quanta per case; when the liveness bound is
        // larger, running out of quanta proves nothing and the case is inconclusive
        let bound_capped = bound > 1_500_000;
        let bound = bound.min(1_500_000);
        let mut cfg = case.cfg.clone();
        cfg.quanta_budget = bound;
        cfg.work_cap = bound.saturating_mul(32).min(200_000_000);
        // the whole disjunction
        let total_needed: usize = need.values().sum();
        let mut remaining = need.clone();
        let mut left = total_needed;
        let handle = crate::driver::Handle::install(&cfg, false);
        let h2 = handle.clone();
        let res = std::panic::catch_unwind(std::panic::AssertUnwindSafe(|| {
            let q = crate::builder::build_query(p);
            let mut it = q.run_with_user(Default::default(), ());
            let mut taken = 0usize;
            let mut last_q = 0u64;
            while left > 0 && taken < 200_000 {
                match it.next() {
                    Some(row) => {
                        taken += 1;
                        h2.set_armed(false);
                        let a = crate::engine::canon_row(&row);
                        h2.set_armed(true);
                        if let Some(v) = q_value(&a.term) {
                            if let Some(c) = remaining.get_mut(&v) {
                                if *c > 0 {
                                    *c -= 1;
                                    left -= 1;
                                    last_q = h2.quanta();
                                }
                            }
                        }
                    }
                    None => return (false, taken, last_q),
                }
            }
            (true, taken, last_q)
        }));
        let stats = handle.finish();
        facts.trace_hash = stats.trace_hash;
        let quanta_used = stats.quanta;
        let work_capped = stats.work >= cfg.work_cap;
        facts.stats.push(stats);
        let missing: Vec<String> = remaining
            .iter()
            .filter(|(_, c)| **c > 0)
            .map(|(v, c)| format!("{}x{}", v, c))
            .collect();
        facts.answers_compared += (total_needed - left) as u64;
        match res {
            Ok((true, _taken, last_q)) if left == 0 => {
                // the margin that matters: cases whose bound was not capped (a capped case that runs
                // out of quanta is inconclusive, never a violation)
                if bound_capped {
                    facts.metrics.insert("quanta_needed_over_capped_bound", last_q as f64 / bound as f64);
                } else {
                    facts.metrics.insert("quanta_needed_over_bound", last_q as f64 / bound as f64);
                }
                facts.nontrivial = alts.len() >= 2
                    || p.any(|g| matches!(g, G::Call(Rel::Never, _) | G::Anyo(_)))
                    || p.any(|g| matches!(g, G::Leaf(l) if l.tail != Tail::End));
                CaseResult { verdict: Verdict::Pass, facts }
            }
            Ok((true, taken, _)) => CaseResult {
                verdict: Verdict::Inconclusive(format!("answer cap {} reached", taken)),
                facts,
            },
            Ok((false, _taken, _)) => CaseResult {
                verdict: Verdict::Violation {
                    class: "disjunction-ended-without-branch-answers".into(),
                    detail: format!("iterator ended; missing q values {:?}; {}", missing, detail_alone.join("; ")),
                },
                facts,
            },
            Err(payload) => {
                if let Some(b) = payload.downcast_ref::<proto_vulcan::verif_sim::BudgetExceeded>() {
                    if b.work_cap || work_capped {
                        *facts.faults.entry("timeout").or_insert(0) += 1;
                        // These programs contain no committed-choice operator, so no engine step
                        // legitimately loops: the depth of the stream tree bounds the work of one
                        // quantum. Work running out long before the quanta do means some quantum
                        // did not return, i.e. one branch held the scheduler.
                        if quanta_used.saturating_mul(2_000) < b.work {
                            return CaseResult {
                                verdict: Verdict::Violation {
                                    class: "scheduling-quantum-did-not-return".into(),
                                    detail: format!(
                                        "{} engine steps were spent in only {} scheduling quanta (still missing q values {:?}); {}",
                                        b.work,
                                        quanta_used,
                                        missing,
                                        detail_alone.join("; ")
                                    ),
                                },
                                facts,
                            };
                        }
                        return CaseResult { verdict: Verdict::Inconclusive("work cap before quanta bound".into()), facts };
                    }
                    *facts.faults.entry("timeout").or_insert(0) += 1;
                    if bound_capped {
                        return CaseResult {
                            verdict: Verdict::Inconclusive("liveness bound above the affordable quanta".into()),
                            facts,
                        };
                    }
                    CaseResult {
                        verdict: Verdict::Violation {
                            class: "branch-starved".into(),
                            detail: format!(
                                "after {} quanta (bound {}) still missing q values {:?}; {}",
                                quanta_used,
                                bound,
                                missing,
                                detail_alone.join("; ")
                            ),
                        },
                        facts,
                    }
                } else {
                    let msg = if let Some(s) = payload.downcast_ref::<&str>() {
                        s.to_string()
                    } else if let Some(s) = payload.downcast_ref::<String>() {
                        s.clone()
                    } else {
                        "<panic>".into()
                    };
                    CaseResult { verdict: Verdict::Violation { class: "panic".into(), detail: msg }, facts }
                }
            }
        }
    }
}
