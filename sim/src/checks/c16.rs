//! C16 — CLP(FD) answers satisfy every posted constraint (soundness);
//! C17 — CLP(FD) labeling returns every solution exactly once (completeness, multiplicity).
//! Same generator, same runs, different clause of the oracle.
use crate::ast::*;
use crate::engine::{run_program, End};
use crate::framework::*;
use crate::gen_fd::{self, FdOpts, Val};
use crate::gen_search;
use crate::valid;
use serde_json::json;
use std::collections::BTreeMap;

pub struct FdCheck {
    pub id: &'static str,
    pub sound: bool,
}
pub static C16: FdCheck = FdCheck { id: "C16", sound: true };
pub static C17: FdCheck = FdCheck { id: "C17", sound: false };

pub fn fd_only(p: &Program) -> bool {
    !p.any(|g| {
        !matches!(
            g,
            G::Succeed
                | G::Fail
                | G::Eq(..)
                | G::Neq(..)
                | G::Conj(_)
                | G::Conde(_)
                | G::Fresh(..)
                | G::Dom(..)
                | G::DomRange(..)
                | G::Ltefd(..)
                | G::Ltfd(..)
                | G::Plusfd(..)
                | G::Minusfd(..)
                | G::Timesfd(..)
                | G::Diseqfd(..)
                | G::Distinctfd(..)
        )
    })
}

pub fn fd_opts_for(tier: Tier, w: &mut crate::rng::Rng) -> FdOpts {
    let mut o = FdOpts::default_small();
    if tier == Tier::Thorough && w.chance(1, 4) {
        o.max_constraints = 7;
    }
    // swarm: switch features off in some runs
    if w.chance(1, 4) {
        o.allow_negative = false;
    }
    if w.chance(1, 4) {
        o.allow_alias = false;
    }
    if w.chance(1, 4) {
        o.allow_times = false;
    }
    if w.chance(1, 4) {
        o.allow_conde = false;
    }
    if w.chance(1, 4) {
        o.allow_hidden = false;
    }
    // tree disequalities between FD variables / constants in a quarter of the runs
    if w.chance(1, 4) {
        o.allow_neq = true;
    }
    o
}

/// Engine multiset of ground projections; Err(description) when an answer is not ground.
pub fn engine_multiset(answers: &[crate::engine::EAnswer]) -> Result<BTreeMap<Val, u64>, String> {
    let mut m = BTreeMap::new();
    for a in answers {
        // the answer term is the one-element list of the query variable
        let q = match &a.term {
            T::Cons(h, _) => (**h).clone(),
            other => other.clone(),
        };
        match gen_fd::val_of_answer(&q) {
            Some(v) => *m.entry(v).or_insert(0) += 1,
            None => return Err(format!("answer {} is not ground", q.show())),
        }
    }
    Ok(m)
}

impl Check for FdCheck {
    fn id(&self) -> &'static str {
        self.id
    }

    fn cases(&self, tier: Tier) -> usize {
        match tier {
            Tier::Quick => 1_500_000,
            Tier::Thorough => 30_000_000,
        }
    }

    fn generate(&self, seed: u64, index: u64, tier: Tier) -> Case {
        // C16 and C17 deliberately share the stream name: they look at the same cases
        let mut st = streams(seed, "C16C17", index);
        let mut tries = 0;
        loop {
            let o = fd_opts_for(tier, &mut st.workload);
            let program = gen_fd::gen_program(&mut st.workload, &o);
            let cfg = gen_search::sim_cfg(&mut st.schedule, 400_000);
            // a sixth of the cases run as the body of a dfs block (depth-first conde, bind_dfs)
            let dfs = st.workload.chance(1, 6);
            let case = Case {
                property: self.id.into(),
                oracle: "brute-force".into(),
                program,
                cfg,
                extra: json!({"dfs": dfs}),
            };
            tries += 1;
            if self.known_class(&case).is_none() || tries > 50 {
                return case;
            }
        }
    }

    fn valid(&self, case: &Case) -> bool {
        valid::program_ok(&case.program)
            && fd_only(&case.program)
            && case.program.nq == 1
            && gen_fd::brute_force(&case.program).is_some()
    }

    fn known_class(&self, case: &Case) -> Option<String> {
        crate::classes::fd_known_class(&case.program)
    }

    fn rule(&self) -> String {
        format!(
            "case = CLP(FD) program (1-4 variables, interval and sparse domains in [-3,4], <=5(7) constraints of every kind \
             with operand aliasing and constants, arbitrary posting order, ==, optional conde, query term a variable / list / \
             nested / improper list / #[compound] term (Pair, Duo) around, inside or next to lists, with hidden variables; one case in six runs as the body of a dfs block) x (iteration-order policy over run_constraints, \
             process_extension_fd and the labeling order; yields). Oracle R3: brute force over the domain product. {} \
             distinct = (program, decision trace); non-trivial = the program has at least one constraint and the oracle \
             compared at least one answer or verified an expected-empty result",
            if self.sound {
                "C16: every answer is ground, in-domain and is the projection of a satisfying assignment."
            } else {
                "C17: the multiset of query projections equals the brute-force multiset (each solution exactly once per disjunct)."
            }
        )
    }

    fn run(&self, case: &Case) -> CaseResult {
        let mut facts = Facts::default();
        let p = &case.program;
        let expected = match gen_fd::brute_force(p) {
            Some(e) => e,
            None => return CaseResult { verdict: Verdict::Inconclusive("outside R3".into()), facts },
        };
        let run = run_program(&exec_program(case), &case.cfg, 100_000, false);
        facts.trace_hash = run.stats.trace_hash;
        facts.stats.push(run.stats.clone());
        match &run.end {
            End::Exhausted => {}
            End::WorkCap | End::Budget | End::Limit => {
                return CaseResult { verdict: Verdict::Inconclusive("budget".into()), facts }
            }
            End::Panic(pi) => {
                return CaseResult {
                    verdict: Verdict::Violation { class: format!("panic@{}", pi.location), detail: pi.message.clone() },
                    facts,
                }
            }
        }
        facts.answers_compared += run.answers.len() as u64;
        let nconstraints = p.any(|g| {
            matches!(
                g,
                G::Ltefd(..) | G::Ltfd(..) | G::Plusfd(..) | G::Minusfd(..) | G::Timesfd(..) | G::Diseqfd(..) | G::Distinctfd(..)
            )
        });
        let got = match engine_multiset(&run.answers) {
            Ok(m) => m,
            Err(e) => {
                if self.sound {
                    return CaseResult {
                        verdict: Verdict::Violation { class: "fd-answer-not-ground".into(), detail: e },
                        facts,
                    };
                } else {
                    return CaseResult { verdict: Verdict::Inconclusive("non-ground answer (C16's business)".into()), facts };
                }
            }
        };
        if self.sound {
            for (v, _) in got.iter() {
                if !expected.multiset.contains_key(v) {
                    return CaseResult {
                        verdict: Verdict::Violation {
                            class: "fd-unsound-answer".into(),
                            detail: format!(
                                "answer {} satisfies no assignment; solutions: {:?}",
                                gen_fd::show_val(v),
                                expected.multiset.keys().map(gen_fd::show_val).collect::<Vec<_>>()
                            ),
                        },
                        facts,
                    };
                }
            }
        } else {
            for (v, n) in expected.multiset.iter() {
                let g = got.get(v).cloned().unwrap_or(0);
                if g < *n {
                    return CaseResult {
                        verdict: Verdict::Violation {
                            class: "fd-missing-solution".into(),
                            detail: format!(
                                "solution {} expected {} time(s), returned {}; engine returned {:?}",
                                gen_fd::show_val(v),
                                n,
                                g,
                                got.iter().map(|(k, c)| format!("{}x{}", gen_fd::show_val(k), c)).collect::<Vec<_>>()
                            ),
                        },
                        facts,
                    };
                }
                if g > *n {
                    return CaseResult {
                        verdict: Verdict::Violation {
                            class: "fd-duplicate-solution".into(),
                            detail: format!("solution {} expected {} time(s), returned {}", gen_fd::show_val(v), n, g),
                        },
                        facts,
                    };
                }
            }
        }
        facts.nontrivial = nconstraints;
        CaseResult { verdict: Verdict::Pass, facts }
    }
}
