//! C05 — depth-first search yields answers in Prolog order.
//!
//! Two observation points:
//!  * `in-block`: an observer goal is the last conjunct *inside* the dfs block, so it sees the
//!    block's answers in the order the depth-first search produces them, before any enclosing
//!    interleaving continuation can reorder them. Checked under every perturbation.
//!  * `iterator`: the order in which `ResultIterator` returns them, exact configuration only.
use crate::ast::*;
use crate::checks::c06::{fault_facts, show_terms};
use crate::engine::{run_program, End};
use crate::framework::*;
use crate::gen_search::{self, Gen, Opts};
use crate::refint::{self, R1};
use crate::valid;
use serde_json::json;

pub struct C05Check;
pub static C05: C05Check = C05Check;

fn forbidden(p: &Program) -> bool {
    p.any(|g| {
        matches!(
            g,
            G::Neq(..)
                | G::For(..)
                | G::Conda(_)
                | G::Condu(_)
                | G::Onceo(_)
                | G::Anyo(_)
                | G::Project(..)
                | G::Prim(..)
                | G::Dom(..)
                | G::DomRange(..)
                | G::Ltefd(..)
                | G::Ltfd(..)
                | G::Plusfd(..)
                | G::Minusfd(..)
                | G::Timesfd(..)
                | G::Diseqfd(..)
                | G::Distinctfd(..)
                | G::Plusz(..)
                | G::Timesz(..)
                | G::Call(Rel::Always, _)
                | G::Call(Rel::Never, _)
        )
    }) || refint::is_infinite(p)
}

fn term_has_list(t: &T) -> bool {
    matches!(t, T::Cons(..) | T::Nil | T::Cmp(..))
}

/// Known-finding class: the answers of a dfs block can reach the iterator out of order when
/// their reification continuations need different numbers of steps, i.e. when query variables
/// can be bound to lists of different shapes. Syntactic over-approximation: the program mentions
/// a list anywhere.
pub fn mentions_lists(p: &Program) -> bool {
    p.any(|g| match g {
        G::Eq(a, b) => term_has_list(a) || term_has_list(b),
        G::Leaf(l) => term_has_list(&l.target) || l.answers.iter().any(|a| term_has_list(&a.value)),
        G::Call(..) | G::CallDef(..) => true,
        _ => false,
    })
}

/// The dfs block of the program (the check's programs contain exactly one).
fn split_block(p: &Program) -> Option<Program> {
    fn find(gs: &[G]) -> Option<Vec<G>> {
        for g in gs {
            if let G::Dfs(body) = g {
                return Some(body.clone());
            }
            let kids: Vec<G> = g.children().into_iter().cloned().collect();
            if let Some(b) = find(&kids) {
                return Some(b);
            }
        }
        None
    }
    find(&p.body).map(|b| Program { nq: p.nq, defs: p.defs.clone(), body: vec![G::Dfs(b)] })
}

impl Check for C05Check {
    fn id(&self) -> &'static str {
        "C05"
    }

    fn cases(&self, tier: Tier) -> usize {
        match tier {
            Tier::Quick => 600_000,
            Tier::Thorough => 12_000_000,
        }
    }

    fn generate(&self, seed: u64, index: u64, tier: Tier) -> Case {
        if let Some(c) = crate::surface::case_for("C05", seed, index) {
            return c;
        }
        let mut st = streams(seed, "C05", index);
        let mut o = Opts::finite_small();
        o.for_loops = false;
        o.dfs_blocks = false;
        if tier == Tier::Thorough && st.workload.chance(1, 3) {
            o.max_depth = 4;
            o.max_width = 4;
        }
        let mode = st.workload.below(8);
        if mode == 0 {
            // iterator order: atoms only (see `mentions_lists`), exact schedule
            o.calls = false;
            o.defs = false;
            o.atoms_only = true;
            loop {
                let p = {
                    let mut g = Gen::new(&mut st.workload, &mut st.leaves, o.clone());
                    let p = g.program(true);
                    Program { nq: p.nq, defs: p.defs.clone(), body: vec![G::Dfs(p.body)] }
                };
                if !mentions_lists(&p) {
                    return Case {
                        property: "C05".into(),
                        oracle: "iterator".into(),
                        program: p,
                        cfg: crate::driver::SimCfg::exact(200_000),
                        extra: json!({}),
                    };
                }
            }
        }
        let embedded = mode <= 2;
        let program = {
            let mut g = Gen::new(&mut st.workload, &mut st.leaves, o);
            let p = g.program(true);
            let mut block_body = p.body.clone();
            block_body.push(G::Observe(0));
            let block = G::Dfs(block_body);
            if embedded {
                // the dfs block sits inside an interleaving context with a producing sibling
                let sibling = G::Leaf(Leaf {
                    id: 900,
                    target: T::V(0),
                    answers: vec![
                        LeafAns { value: T::S("sibling".into()), latency: g.l.below(4) as u8 },
                        LeafAns { value: T::S("sibling".into()), latency: g.l.below(4) as u8 },
                    ],
                    shape: Shape::Chain,
                    tail: Tail::End,
                    end_latency: 0,
                });
                let body = if g.w.chance(1, 2) {
                    vec![G::Conde(vec![vec![block], vec![sibling]])]
                } else {
                    vec![G::Conde(vec![vec![sibling], vec![block]])]
                };
                Program { nq: p.nq, defs: p.defs, body }
            } else {
                Program { nq: p.nq, defs: p.defs.clone(), body: vec![block] }
            }
        };
        let cfg = gen_search::sim_cfg(&mut st.schedule, 200_000);
        Case {
            property: "C05".into(),
            oracle: "in-block".into(),
            program,
            cfg,
            extra: json!({"embedded": embedded}),
        }
    }

    fn valid(&self, case: &Case) -> bool {
        if crate::surface::is_surface(case) {
            return crate::surface::valid(case);
        }
        if !valid::program_ok(&case.program) || forbidden(&case.program) {
            return false;
        }
        let blocks = case.program.body.iter().map(count_dfs).sum::<usize>();
        if blocks != 1 {
            return false;
        }
        match case.oracle.as_str() {
            "iterator" => case.cfg.is_exact() && matches!(case.program.body.as_slice(), [G::Dfs(_)]),
            "in-block" => match split_block(&case.program) {
                Some(b) => match b.body.as_slice() {
                    [G::Dfs(body)] => {
                        matches!(body.last(), Some(G::Observe(_)))
                            && body.iter().filter(|g| g.any(|x| matches!(x, G::Observe(_)))).count() == 1
                    }
                    _ => false,
                },
                None => false,
            },
            _ => false,
        }
    }

    fn known_class(&self, case: &Case) -> Option<String> {
        if case.oracle == "iterator" && mentions_lists(&case.program) {
            Some("dfs-iterator-order-with-lists".into())
        } else {
            None
        }
    }

    fn rule(&self) -> String {
        "Every 64th case is one of the macro-written surface programs for this property (sim/src/surface.rs: static-fail clauses, comma-separated dfs block goals, nested cond, match arms, project in dfs) compared as an exact sequence with a hand-listed expectation. case = (terminating program inside dfs{}: DFSConj/DFSDisj/cond, fresh, closures, member/append, program-defined \
         recursive relations, DFS leaves with several answers; optionally the block is one branch of an interleaving conde \
         with a producing sibling) x (leaf latency and delivery shape, yields, reorders). Oracle in-block: the sequence of \
         states reaching an observer goal placed last inside the block equals the reference interpreter's depth-first \
         answer list position by position, and the iterator returns the same multiset. Oracle iterator (exact schedule, \
         programs without lists): the ResultIterator order equals the reference order. distinct = (program, decision \
         trace); non-trivial = at least two answers were compared in order"
            .into()
    }

    fn run(&self, case: &Case) -> CaseResult {
        if crate::surface::is_surface(case) {
            return crate::surface::run_case(case);
        }
        let mut facts = Facts::default();
        fault_facts(&case.program, &mut facts);
        let p = &case.program;
        let block_prog = match split_block(p) {
            Some(b) => b,
            None => return CaseResult { verdict: Verdict::Inconclusive("no dfs block".into()), facts },
        };
        let r1 = R1::new(&block_prog, refint::Opts { fuel: 30_000, ..Default::default() }).run();
        if r1.cut || r1.unfolded {
            return CaseResult { verdict: Verdict::Inconclusive("reference out of fuel".into()), facts };
        }
        let expect: Vec<T> = r1.answers.iter().map(|a| a.term.clone()).collect();
        // the engine gets a step budget proportional to the size of the tree (reference steps and
        // answers); the largest ratio actually needed is reported as a metric in the evidence
        let mut cfg = case.cfg.clone();
        cfg.quanta_budget = crate::framework::finite_budget(r1.steps, r1.answers.len());
        cfg.work_cap = cfg.quanta_budget.saturating_mul(64);
        let run = run_program(p, &cfg, usize::MAX, false);
        facts.trace_hash = run.stats.trace_hash;
        facts.stats.push(run.stats.clone());
        match &run.end {
            End::Exhausted => {
                facts.metrics.insert(
                    "quanta_needed_over_budget",
                    run.stats.quanta as f64 / cfg.quanta_budget as f64,
                );
            }
            End::WorkCap => return CaseResult { verdict: Verdict::Inconclusive("work cap".into()), facts },
            End::Panic(pi) => {
                return CaseResult {
                    verdict: Verdict::Violation { class: format!("panic@{}", pi.location), detail: pi.message.clone() },
                    facts,
                }
            }
            _ => {
                return CaseResult {
                    verdict: Verdict::Violation {
                        class: "finite-tree-did-not-terminate".into(),
                        detail: format!("still running after {} quanta", run.stats.quanta),
                    },
                    facts,
                }
            }
        }
        let marker = T::S("sibling".into());
        let is_sibling = |t: &T| match t {
            T::Cons(h, _) => **h == marker,
            _ => false,
        };
        let got_iter: Vec<T> = run.answers.iter().map(|a| a.term.clone()).filter(|t| !is_sibling(t)).collect();
        let violation = |class: &str, got: &Vec<T>, facts: Facts| CaseResult {
            verdict: Verdict::Violation {
                class: class.into(),
                detail: format!("engine {:?} vs reference {:?}", show_terms(got), show_terms(&expect)),
            },
            facts,
        };
        // multiset at the iterator, always
        {
            let mut a = got_iter.clone();
            let mut b = expect.clone();
            a.sort();
            b.sort();
            if a != b {
                return violation("dfs-answers-differ", &got_iter, facts);
            }
        }
        if case.oracle == "iterator" {
            facts.answers_compared += got_iter.len() as u64;
            if got_iter != expect {
                return violation("dfs-iterator-order-differs", &got_iter, facts);
            }
        } else {
            let seen: Vec<T> = run.observed.iter().map(|(_, t)| t.clone()).collect();
            facts.answers_compared += seen.len() as u64;
            if seen != expect {
                return violation("dfs-order-differs", &seen, facts);
            }
        }
        facts.nontrivial = expect.len() >= 2;
        CaseResult { verdict: Verdict::Pass, facts }
    }
}

fn count_dfs(g: &G) -> usize {
    let own = if matches!(g, G::Dfs(_)) { 1 } else { 0 };
    own + g.children().iter().map(|c| count_dfs(c)).sum::<usize>()
}
