//! C19 — CLP(Z) plusz/timesz constrain integers exactly.
use crate::ast::*;
use crate::engine::{run_program, End};
use crate::framework::*;
use crate::gen_search;
use crate::rng::Rng;
use crate::valid;
use serde_json::json;

pub struct C19Check;
pub static C19: C19Check = C19Check;

fn gen_program(w: &mut Rng, tier: Tier) -> Program {
    let k = 2 + w.below(if tier == Tier::Thorough { 3 } else { 2 }) as u32; // 2..3 (4 in thorough)
    let vars: Vec<VarIx> = (0..k).collect();
    let operand = |w: &mut Rng| -> T {
        if w.chance(1, 3) {
            T::I(w.range(-6, 6))
        } else {
            T::V(*w.pick(&vars))
        }
    };
    let mut goals = vec![];
    let nc = 1 + w.below(4);
    for _ in 0..nc {
        let (a, b, c) = (operand(w), operand(w), operand(w));
        goals.push(if w.chance(1, 2) { G::Plusz(a, b, c) } else { G::Timesz(a, b, c) });
    }
    let nb = w.below(k as usize + 2);
    for _ in 0..nb {
        let v = *w.pick(&vars);
        if w.chance(1, 5) {
            let u = *w.pick(&vars);
            goals.push(G::Eq(T::V(v), T::V(u)));
        } else {
            let val = if w.chance(1, 4) { 0 } else { w.range(-6, 6) };
            if w.chance(1, 2) {
                goals.push(G::Eq(T::V(v), T::I(val)));
            } else {
                goals.push(G::Eq(T::I(val), T::V(v)));
            }
        }
    }
    // disequalities next to the integer constraints (a quarter of the programs), some of them
    // written twice or implied by another one: the store normalises them while Z constraints wait in it
    if w.chance(1, 4) {
        let n = 1 + w.below(3);
        for _ in 0..n {
            let v = *w.pick(&vars);
            let g = match w.below(4) {
                0 => G::Neq(T::V(v), T::V(*w.pick(&vars))),
                1 => {
                    let u = *w.pick(&vars);
                    G::Neq(T::list(vec![T::V(v), T::V(u)]), T::list(vec![T::I(w.range(-2, 2)), T::I(w.range(-2, 2))]))
                }
                _ => G::Neq(T::V(v), T::I(w.range(-3, 3))),
            };
            if w.chance(1, 3) {
                goals.push(g.clone());
            }
            goals.push(g);
        }
    }
    // choice bindings: a variable bound by the clauses of a conde (distinct values per conde), so the
    // constraints posted before it are resumed once per branch and those after it run in several states
    if w.chance(1, 3) {
        let n = if w.chance(1, 4) { 2 } else { 1 };
        for _ in 0..n {
            let v = *w.pick(&vars);
            let m = 2 + w.below(2);
            let mut vals: Vec<i64> = vec![];
            while vals.len() < m {
                let x = if w.chance(1, 4) { 0 } else { w.range(-6, 6) };
                if !vals.contains(&x) {
                    vals.push(x);
                }
            }
            goals.push(G::Conde(vals.into_iter().map(|x| vec![G::Eq(T::V(v), T::I(x))]).collect()));
        }
    }
    w.shuffle(&mut goals);
    Program { nq: k, defs: vec![], body: goals }
}

fn neq_side(t: &T) -> bool {
    match t {
        T::V(_) | T::I(_) | T::Nil => true,
        T::Cons(h, tl) => matches!(**h, T::V(_) | T::I(_)) && neq_side(tl),
        _ => false,
    }
}

/// A choice binding: conde whose clauses are single `v == n` goals on one variable, distinct n.
fn choice(g: &G) -> Option<(VarIx, Vec<i64>)> {
    let cs = match g {
        G::Conde(cs) if cs.len() >= 2 && cs.len() <= 3 => cs,
        _ => return None,
    };
    let mut var = None;
    let mut vals = vec![];
    for c in cs.iter() {
        match c.as_slice() {
            [G::Eq(T::V(v), T::I(n))] if var.is_none() || var == Some(*v) => {
                var = Some(*v);
                if vals.contains(n) {
                    return None;
                }
                vals.push(*n);
            }
            _ => return None,
        }
    }
    var.map(|v| (v, vals))
}

/// The straight-line programs of a program with choice bindings: one per combination of clauses.
fn linearised(p: &Program) -> Vec<Program> {
    let mut out: Vec<Vec<G>> = vec![vec![]];
    for g in p.body.iter() {
        match choice(g) {
            Some((v, vals)) => {
                let mut next = vec![];
                for pre in out.iter() {
                    for n in vals.iter() {
                        let mut b = pre.clone();
                        b.push(G::Eq(T::V(v), T::I(*n)));
                        next.push(b);
                    }
                }
                out = next;
            }
            None => {
                for b in out.iter_mut() {
                    b.push(g.clone());
                }
            }
        }
    }
    out.into_iter().map(|body| Program { nq: p.nq, defs: vec![], body }).collect()
}

/// Does the answer lie on this straight-line path: every binding `v == n` / `n == v` of the path
/// that came from a choice is what the answer says (checked for all var-const bindings).
fn on_path(lin: &Program, ans: &[T]) -> bool {
    lin.body.iter().all(|g| match g {
        G::Eq(T::V(v), T::I(n)) | G::Eq(T::I(n), T::V(v)) => ans[*v as usize] == T::I(*n),
        _ => true,
    })
}

fn operand_value(t: &T, ans: &[T]) -> T {
    match t {
        T::V(v) => ans[*v as usize].clone(),
        other => other.clone(),
    }
}

fn subst_answer(t: &T, ans: &[T]) -> T {
    match t {
        T::V(v) => ans[*v as usize].clone(),
        T::Cons(h, tl) => T::Cons(Box::new(subst_answer(h, ans)), Box::new(subst_answer(tl, ans))),
        other => other.clone(),
    }
}

fn has_any(t: &T) -> bool {
    match t {
        T::Any(_) => true,
        T::Cons(h, tl) | T::Cmp(_, h, tl) => has_any(h) || has_any(tl),
        _ => false,
    }
}

fn answer_values(term: &T, k: usize) -> Option<Vec<T>> {
    let mut out = vec![];
    let mut cur = term;
    while let T::Cons(h, tl) = cur {
        out.push((**h).clone());
        cur = tl;
    }
    if out.len() == k {
        Some(out)
    } else {
        None
    }
}

/// Check one constraint against the final values of its operands.
fn judge(g: &G, ans: &[T]) -> Result<(), String> {
    if let G::Neq(a, b) = g {
        let (x, y) = (subst_answer(a, ans), subst_answer(b, ans));
        return if x == y && !has_any(&x) {
            Err(format!("{} is violated by the answer: both sides are {}", crate::show::goal(g), x.show()))
        } else {
            Ok(())
        };
    }
    let (plus, a, b, c) = match g {
        G::Plusz(a, b, c) => (true, a, b, c),
        G::Timesz(a, b, c) => (false, a, b, c),
        _ => return Ok(()),
    };
    let (u, v, w) = (operand_value(a, ans), operand_value(b, ans), operand_value(c, ans));
    let name = crate::show::goal(g);
    match (&u, &v, &w) {
        (T::I(x), T::I(y), T::I(z)) => {
            let holds = if plus { x + y == *z } else { x * y == *z };
            if holds {
                Ok(())
            } else {
                Err(format!("{} is violated by the answer: operands {} {} {}", name, x, y, z))
            }
        }
        (T::I(x), T::I(y), T::Any(_)) => Err(format!(
            "{}: two operands ground ({} and {}) but the third is left unbound",
            name, x, y
        )),
        (T::I(x), T::Any(_), T::I(z)) => {
            if !plus && *x == 0 && *z == 0 {
                Ok(()) // every integer works
            } else {
                Err(format!("{}: operands {} and {} ground but the second is left unbound", name, x, z))
            }
        }
        (T::Any(_), T::I(y), T::I(z)) => {
            if !plus && *y == 0 && *z == 0 {
                Ok(())
            } else {
                Err(format!("{}: operands {} and {} ground but the first is left unbound", name, y, z))
            }
        }
        (x, y, z) => {
            for t in [x, y, z] {
                if !matches!(t, T::I(_) | T::Any(_)) {
                    return Err(format!("{}: operand bound to a non-integer {}", name, t.show()));
                }
            }
            Ok(())
        }
    }
}

/// Brute-force search for an integer solution with every variable in [-w, w].
fn solvable_in_window(p: &Program, w: i64) -> bool {
    let k = p.nq as usize;
    let mut asg = vec![-w; k];
    loop {
        let ans: Vec<T> = asg.iter().map(|i| T::I(*i)).collect();
        let mut ok = true;
        for g in p.body.iter() {
            let sat = match g {
                G::Plusz(..) | G::Timesz(..) | G::Neq(..) => judge(g, &ans).is_ok(),
                G::Eq(a, b) => operand_value(a, &ans) == operand_value(b, &ans),
                _ => true,
            };
            if !sat {
                ok = false;
                break;
            }
        }
        if ok {
            return true;
        }
        let mut i = 0;
        loop {
            if i == k {
                return false;
            }
            asg[i] += 1;
            if asg[i] <= w {
                break;
            }
            asg[i] = -w;
            i += 1;
        }
    }
}

impl Check for C19Check {
    fn id(&self) -> &'static str {
        "C19"
    }

    fn cases(&self, tier: Tier) -> usize {
        match tier {
            Tier::Quick => 300_000,
            Tier::Thorough => 6_000_000,
        }
    }

    fn generate(&self, seed: u64, index: u64, tier: Tier) -> Case {
        let mut st = streams(seed, "C19", index);
        let program = gen_program(&mut st.workload, tier);
        let cfg = gen_search::sim_cfg(&mut st.schedule, 100_000);
        let dfs = st.workload.chance(1, 8);
        Case { property: "C19".into(), oracle: "integer-arithmetic".into(), program, cfg, extra: json!({"dfs": dfs}) }
    }

    fn valid(&self, case: &Case) -> bool {
        valid::program_ok(&case.program)
            && case.program.nq >= 1
            && case.program.nq <= 4
            && case.program.body.iter().all(|g| match g {
                G::Plusz(..) | G::Timesz(..) => true,
                G::Eq(a, b) => matches!(a, T::V(_) | T::I(_)) && matches!(b, T::V(_) | T::I(_)),
                G::Neq(a, b) => neq_side(a) && neq_side(b),
                g @ G::Conde(_) => choice(g).is_some(),
                _ => false,
            })
            && case.program.body.iter().filter(|g| matches!(g, G::Conde(_))).count() <= 2
            && case.program.body.iter().any(|g| matches!(g, G::Plusz(..) | G::Timesz(..)))
    }

    fn rule(&self) -> String {
        "case = conjunction of 1-4 plusz/timesz constraints over 2-4 query variables and constants in [-6,6] (operand \
         aliasing allowed) and 0-5 bindings (var == const, const == var, var == var) and, in a third of the programs, one or two \
         choice bindings (conde { v == a, v == b, .. } with distinct values: constraints posted before it are resumed once per \
         branch) and, in a quarter, 1-3 disequalities between variables, numbers and two-element lists of them (some written \
         twice or implied by another: the store normalises them while Z constraints wait in it), in every posting order, one case in eight as the body of a dfs block, x (iteration \
         order of run_constraints, yields). Oracle: for every answer and every constraint, with the final operand values: all \
         ground -> the equation holds; exactly two ground -> the third must be bound unless every integer works (timesz(0,r,0)); \
         operands are integers or unbound; no disequality has two equal ground sides; every answer lies on one root-to-leaf path of the choices and every path has at most \
         one answer; for a path without an answer, brute force over [-14,14]^k must find no solution of its straight-line \
         program; no panic. distinct = (program, decision trace); non-trivial = an answer was judged or a failure was \
         confirmed by the brute force"
            .into()
    }

    fn run(&self, case: &Case) -> CaseResult {
        let mut facts = Facts::default();
        let p = &case.program;
        let run = run_program(&exec_program(case), &case.cfg, 64, false);
        facts.trace_hash = run.stats.trace_hash;
        facts.stats.push(run.stats.clone());
        match &run.end {
            End::Exhausted => {}
            End::Panic(pi) => {
                return CaseResult {
                    verdict: Verdict::Violation { class: format!("panic@{}", pi.location), detail: pi.message.clone() },
                    facts,
                }
            }
            _ => return CaseResult { verdict: Verdict::Inconclusive("budget".into()), facts },
        }
        let paths = linearised(p);
        let mut hits = vec![0usize; paths.len()];
        for a in run.answers.iter() {
            let ans = match answer_values(&a.term, p.nq as usize) {
                Some(a) => a,
                None => return CaseResult { verdict: Verdict::Inconclusive("malformed answer".into()), facts },
            };
            facts.answers_compared += 1;
            for g in p.body.iter() {
                if let Err(e) = judge(g, &ans) {
                    let class = if e.contains("left unbound") {
                        "clpz-operand-left-unbound"
                    } else if e.contains("non-integer") {
                        "clpz-non-integer-operand"
                    } else {
                        "clpz-unsound-answer"
                    };
                    return CaseResult { verdict: Verdict::Violation { class: class.into(), detail: e }, facts };
                }
            }
            let on: Vec<usize> = (0..paths.len()).filter(|i| on_path(&paths[*i], &ans)).collect();
            match on.as_slice() {
                [] => {
                    return CaseResult {
                        verdict: Verdict::Violation {
                            class: "clpz-answer-on-no-path".into(),
                            detail: format!("answer {} contradicts a binding of every path of the program", a.term.show()),
                        },
                        facts,
                    }
                }
                [i] => hits[*i] += 1,
                // two choices on one variable with a common value: the paths that pick it in both
                // are indistinguishable only if they are the same path, so this cannot happen
                _ => return CaseResult { verdict: Verdict::Inconclusive("ambiguous path".into()), facts },
            }
        }
        for (i, n) in hits.iter().enumerate() {
            if *n > 1 {
                return CaseResult {
                    verdict: Verdict::Violation {
                        class: "clpz-duplicate-answer".into(),
                        detail: format!("a conjunction returned {} answers (path {} of {})", n, i, paths.len()),
                    },
                    facts,
                };
            }
            if *n == 0 {
                let w = if p.nq <= 3 { 14 } else { 7 };
                if solvable_in_window(&paths[i], w) {
                    return CaseResult {
                        verdict: Verdict::Violation {
                            class: "clpz-fails-although-solvable".into(),
                            detail: format!(
                                "no answer, but an integer solution exists (path {} of {}: {})",
                                i,
                                paths.len(),
                                crate::show::program(&paths[i])
                            ),
                        },
                        facts,
                    };
                }
            }
        }
        facts.nontrivial = true;
        CaseResult { verdict: Verdict::Pass, facts }
    }
}
