//! C19 — CLP(Z) plusz/timesz constrain integers exactly.
use crate::ast::*;
use crate::engine::{run_program, End};
use crate::framework::*;
use crate::gen_search;
use crate::rng::Rng;
use crate::valid;
use serde_json::json;

pub struct C19Check;
pub static C19: C19Check = C19Check;

fn gen_program(w: &mut Rng, tier: Tier) -> Program {
    let k = 2 + w.below(if tier == Tier::Thorough { 3 } else { 2 }) as u32; // 2..3 (4 in thorough)
    let vars: Vec<VarIx> = (0..k).collect();
    let operand = |w: &mut Rng| -> T {
        if w.chance(1, 3) {
            T::I(w.range(-6, 6))
        } else {
            T::V(*w.pick(&vars))
        }
    };
    let mut goals = vec![];
    let nc = 1 + w.below(4);
    for _ in 0..nc {
        let (a, b, c) = (operand(w), operand(w), operand(w));
        goals.push(if w.chance(1, 2) { G::Plusz(a, b, c) } else { G::Timesz(a, b, c) });
    }
    let nb = w.below(k as usize + 2);
    for _ in 0..nb {
        let v = *w.pick(&vars);
        if w.chance(1, 5) {
            let u = *w.pick(&vars);
            goals.push(G::Eq(T::V(v), T::V(u)));
        } else {
            let val = if w.chance(1, 4) { 0 } else { w.range(-6, 6) };
            if w.chance(1, 2) {
                goals.push(G::Eq(T::V(v), T::I(val)));
            } else {
                goals.push(G::Eq(T::I(val), T::V(v)));
            }
        }
    }
    w.shuffle(&mut goals);
    Program { nq: k, defs: vec![], body: goals }
}

fn operand_value(t: &T, ans: &[T]) -> T {
    match t {
        T::V(v) => ans[*v as usize].clone(),
        other => other.clone(),
    }
}

fn answer_values(term: &T, k: usize) -> Option<Vec<T>> {
    let mut out = vec![];
    let mut cur = term;
    while let T::Cons(h, tl) = cur {
        out.push((**h).clone());
        cur = tl;
    }
    if out.len() == k {
        Some(out)
    } else {
        None
    }
}

/// Check one constraint against the final values of its operands.
fn judge(g: &G, ans: &[T]) -> Result<(), String> {
    let (plus, a, b, c) = match g {
        G::Plusz(a, b, c) => (true, a, b, c),
        G::Timesz(a, b, c) => (false, a, b, c),
        _ => return Ok(()),
    };
    let (u, v, w) = (operand_value(a, ans), operand_value(b, ans), operand_value(c, ans));
    let name = crate::show::goal(g);
    match (&u, &v, &w) {
        (T::I(x), T::I(y), T::I(z)) => {
            let holds = if plus { x + y == *z } else { x * y == *z };
            if holds {
                Ok(())
            } else {
                Err(format!("{} is violated by the answer: operands {} {} {}", name, x, y, z))
            }
        }
        (T::I(x), T::I(y), T::Any(_)) => Err(format!(
            "{}: two operands ground ({} and {}) but the third is left unbound",
            name, x, y
        )),
        (T::I(x), T::Any(_), T::I(z)) => {
            if !plus && *x == 0 && *z == 0 {
                Ok(()) // every integer works
            } else {
                Err(format!("{}: operands {} and {} ground but the second is left unbound", name, x, z))
            }
        }
        (T::Any(_), T::I(y), T::I(z)) => {
            if !plus && *y == 0 && *z == 0 {
                Ok(())
            } else {
                Err(format!("{}: operands {} and {} ground but the first is left unbound", name, y, z))
            }
        }
        (x, y, z) => {
            for t in [x, y, z] {
                if !matches!(t, T::I(_) | T::Any(_)) {
                    return Err(format!("{}: operand bound to a non-integer {}", name, t.show()));
                }
            }
            Ok(())
        }
    }
}

/// Brute-force search for an integer solution with every variable in [-w, w].
fn solvable_in_window(p: &Program, w: i64) -> bool {
    let k = p.nq as usize;
    let mut asg = vec![-w; k];
    loop {
        let ans: Vec<T> = asg.iter().map(|i| T::I(*i)).collect();
        let mut ok = true;
        for g in p.body.iter() {
            let sat = match g {
                G::Plusz(..) | G::Timesz(..) => judge(g, &ans).is_ok(),
                G::Eq(a, b) => operand_value(a, &ans) == operand_value(b, &ans),
                _ => true,
            };
            if !sat {
                ok = false;
                break;
            }
        }
        if ok {
            return true;
        }
        let mut i = 0;
        loop {
            if i == k {
                return false;
            }
            asg[i] += 1;
            if asg[i] <= w {
                break;
            }
            asg[i] = -w;
            i += 1;
        }
    }
}

impl Check for C19Check {
    fn id(&self) -> &'static str {
        "C19"
    }

    fn cases(&self, tier: Tier) -> usize {
        match tier {
            Tier::Quick => 300_000,
            Tier::Thorough => 6_000_000,
        }
    }

    fn generate(&self, seed: u64, index: u64, tier: Tier) -> Case {
        let mut st = streams(seed, "C19", index);
        let program = gen_program(&mut st.workload, tier);
        let cfg = gen_search::sim_cfg(&mut st.schedule, 100_000);
        Case { property: "C19".into(), oracle: "integer-arithmetic".into(), program, cfg, extra: json!({}) }
    }

    fn valid(&self, case: &Case) -> bool {
        valid::program_ok(&case.program)
            && case.program.nq >= 1
            && case.program.nq <= 4
            && case.program.body.iter().all(|g| match g {
                G::Plusz(..) | G::Timesz(..) => true,
                G::Eq(a, b) => matches!(a, T::V(_) | T::I(_)) && matches!(b, T::V(_) | T::I(_)),
                _ => false,
            })
            && case.program.body.iter().any(|g| matches!(g, G::Plusz(..) | G::Timesz(..)))
    }

    fn rule(&self) -> String {
        "case = conjunction of 1-4 plusz/timesz constraints over 2-4 query variables and constants in [-6,6] (operand \
         aliasing allowed) and 0-5 bindings (var == const, const == var, var == var), in every posting order, x (iteration \
         order of run_constraints, yields). Oracle: for every answer and every constraint, with the final operand values: all \
         ground -> the equation holds; exactly two ground -> the third must be bound unless every integer works (timesz(0,r,0)); \
         operands are integers or unbound; at most one answer; if the engine fails, brute force over [-14,14]^k must find no \
         solution; no panic. distinct = (program, decision trace); non-trivial = an answer was judged or a failure was \
         confirmed by the brute force"
            .into()
    }

    fn run(&self, case: &Case) -> CaseResult {
        let mut facts = Facts::default();
        let p = &case.program;
        let run = run_program(p, &case.cfg, 8, false);
        facts.trace_hash = run.stats.trace_hash;
        facts.stats.push(run.stats.clone());
        match &run.end {
            End::Exhausted => {}
            End::Panic(pi) => {
                return CaseResult {
                    verdict: Verdict::Violation { class: format!("panic@{}", pi.location), detail: pi.message.clone() },
                    facts,
                }
            }
            _ => return CaseResult { verdict: Verdict::Inconclusive("budget".into()), facts },
        }
        if run.answers.len() > 1 {
            return CaseResult {
                verdict: Verdict::Violation {
                    class: "clpz-duplicate-answer".into(),
                    detail: format!("a conjunction returned {} answers", run.answers.len()),
                },
                facts,
            };
        }
        if run.answers.is_empty() {
            let w = if p.nq <= 3 { 14 } else { 7 };
            if solvable_in_window(p, w) {
                return CaseResult {
                    verdict: Verdict::Violation {
                        class: "clpz-fails-although-solvable".into(),
                        detail: "no answer, but an integer solution exists".into(),
                    },
                    facts,
                };
            }
            facts.nontrivial = true;
            return CaseResult { verdict: Verdict::Pass, facts };
        }
        let ans = match answer_values(&run.answers[0].term, p.nq as usize) {
            Some(a) => a,
            None => return CaseResult { verdict: Verdict::Inconclusive("malformed answer".into()), facts },
        };
        facts.answers_compared += 1;
        for g in p.body.iter() {
            if let Err(e) = judge(g, &ans) {
                let class = if e.contains("left unbound") {
                    "clpz-operand-left-unbound"
                } else if e.contains("non-integer") {
                    "clpz-non-integer-operand"
                } else {
                    "clpz-unsound-answer"
                };
                return CaseResult { verdict: Verdict::Violation { class: class.into(), detail: e }, facts };
            }
        }
        facts.nontrivial = true;
        CaseResult { verdict: Verdict::Pass, facts }
    }
}
