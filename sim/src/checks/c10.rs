//! C10 — search branches are isolated from each other.
use crate::ast::*;
use crate::checks::c09::equivalent;
use crate::driver::{Policy, SimCfg};
use crate::engine::{EAnswer, End};
use crate::framework::*;
use crate::rng::Rng;
use crate::statedrv::{run_states, StatesOut};
use crate::valid;
use serde_json::json;

pub struct C10Check;
pub static C10: C10Check = C10Check;

struct Gen<'a> {
    w: &'a mut Rng,
    l: &'a mut Rng,
    next_leaf: u32,
    next_var: u32,
    fd: bool,
    vars: Vec<VarIx>,
}

impl<'a> Gen<'a> {
    fn operand(&mut self) -> T {
        if self.w.chance(1, 4) {
            T::I(self.w.range(0, 3))
        } else {
            T::V(*self.w.pick(&self.vars))
        }
    }

    fn suspension(&mut self) -> G {
        let aux = self.next_var;
        self.next_var += 1;
        let id = self.next_leaf;
        self.next_leaf += 1;
        let shape = match self.l.below(4) {
            0 => Shape::Pauses,
            1 => Shape::Iter,
            _ => Shape::Chain,
        };
        G::Fresh(
            vec![aux],
            vec![G::Leaf(Leaf {
                id,
                target: T::V(aux),
                answers: vec![LeafAns { value: T::I(0), latency: 1 + self.l.below(5) as u8 }],
                shape,
                tail: Tail::End,
                end_latency: self.l.below(3) as u8,
            })],
        )
    }

    fn branch_goal(&mut self) -> G {
        if self.fd {
            match self.w.below(10) {
                0 | 1 => G::Eq(T::V(*self.w.pick(&self.vars)), T::I(self.w.range(0, 3))),
                2 => G::Eq(T::V(*self.w.pick(&self.vars)), T::V(*self.w.pick(&self.vars))),
                3 => G::Ltefd(self.operand(), self.operand()),
                4 => G::Plusfd(self.operand(), self.operand(), self.operand()),
                5 => G::Diseqfd(self.operand(), self.operand()),
                6 => {
                    let v = *self.w.pick(&self.vars);
                    let a = self.w.range(0, 3);
                    let b = self.w.range(0, 3);
                    G::DomRange(T::V(v), a.min(b), a.max(b))
                }
                7 => G::Neq(T::V(*self.w.pick(&self.vars)), T::I(self.w.range(0, 3))),
                _ => self.suspension(),
            }
        } else {
            let leaf = |g: &mut Self| -> T {
                if g.w.chance(1, 2) {
                    T::V(*g.w.pick(&g.vars))
                } else {
                    match g.w.below(3) {
                        0 => T::I(0),
                        1 => T::I(1),
                        _ => T::S("a".into()),
                    }
                }
            };
            match self.w.below(9) {
                8 => {
                    // a CLP(Z) constraint on the shared variables (operands: variables or integers)
                    let z = |g: &mut Self| -> T {
                        if g.w.chance(2, 3) {
                            T::V(*g.w.pick(&g.vars))
                        } else {
                            T::I(g.w.range(0, 2))
                        }
                    };
                    let (a, b, c) = (z(self), z(self), z(self));
                    if self.w.chance(1, 2) {
                        G::Plusz(a, b, c)
                    } else {
                        G::Timesz(a, b, c)
                    }
                }
                0 | 1 => {
                    let a = leaf(self);
                    let b = match self.w.below(6) {
                        0 | 1 => T::list(vec![leaf(self), leaf(self)]),
                        2 => T::cmp(0, leaf(self), leaf(self)),
                        _ => leaf(self),
                    };
                    G::Eq(a, b)
                }
                2 | 3 | 4 => {
                    let a = leaf(self);
                    let b = match self.w.below(6) {
                        0 | 1 => T::list(vec![leaf(self), leaf(self)]),
                        2 => T::cmp(0, leaf(self), leaf(self)),
                        _ => leaf(self),
                    };
                    G::Neq(a, b)
                }
                _ => self.suspension(),
            }
        }
    }

    fn branch(&mut self, tag: u32) -> Vec<G> {
        let n = 2 + self.w.below(4);
        let mut gs = vec![G::UserTag(tag)];
        for _ in 0..n {
            gs.push(self.branch_goal());
        }
        if self.w.chance(1, 3) {
            gs.push(G::UserTag(tag + 10));
        }
        gs
    }

    fn prefix(&mut self) -> Vec<G> {
        let mut gs = vec![G::UserTag(100)];
        if self.fd {
            for v in self.vars.clone() {
                let a = self.w.range(0, 2);
                gs.push(G::DomRange(T::V(v), a, a + 1 + self.w.range(0, 2)));
            }
            if self.w.chance(1, 2) {
                let items: Vec<T> = self.vars.iter().map(|v| T::V(*v)).collect();
                gs.push(G::Distinctfd(items));
            }
            if self.w.chance(1, 2) {
                gs.push(G::Ltefd(self.operand(), self.operand()));
            }
        } else {
            let n = self.w.below(3);
            for _ in 0..n {
                let a = T::V(*self.w.pick(&self.vars));
                let b = if self.w.chance(1, 2) { T::V(*self.w.pick(&self.vars)) } else { T::I(self.w.range(0, 1)) };
                gs.push(G::Neq(a, b));
            }
            if self.w.chance(1, 3) {
                // CLP(Z) constraints that are still suspended when the branches start: one
                // constraint object shared by every branch's store
                let n = 1 + self.w.below(2);
                for _ in 0..n {
                    let z = |g: &mut Self| -> T {
                        if g.w.chance(3, 4) {
                            T::V(*g.w.pick(&g.vars))
                        } else {
                            T::I(g.w.range(0, 2))
                        }
                    };
                    let (a, b, c) = (z(self), z(self), z(self));
                    gs.push(if self.w.chance(1, 2) { G::Plusz(a, b, c) } else { G::Timesz(a, b, c) });
                }
            }
        }
        gs
    }
}

/// (prefix, branch A, branch B) -> the three programs: both branches, only A, only B.
fn programs(nq: u32, prefix: &[G], a: &[G], b: &[G], three: Option<&[G]>, suffix: &[G]) -> (Program, Vec<Program>) {
    let mk = |clauses: Vec<Vec<G>>| {
        let mut body = prefix.to_vec();
        body.push(G::Conde(clauses));
        body.extend(suffix.iter().cloned());
        body.push(G::Observe(0));
        Program { nq, defs: vec![], body }
    };
    let mut all = vec![a.to_vec(), b.to_vec()];
    if let Some(c) = three {
        all.push(c.to_vec());
    }
    let alone: Vec<Program> = all.iter().map(|c| mk(vec![c.clone()])).collect();
    (mk(all), alone)
}

/// prefix, conde clauses, suffix (goals between the conde and the observer: ONE goal object each,
/// reached by the states of every branch).
fn split(p: &Program) -> Option<(Vec<G>, Vec<Vec<G>>, Vec<G>)> {
    let n = p.body.len();
    if n < 2 || !matches!(p.body[n - 1], G::Observe(_)) {
        return None;
    }
    let at = p.body.iter().rposition(|g| matches!(g, G::Conde(_)))?;
    match &p.body[at] {
        G::Conde(cs) => Some((p.body[..at].to_vec(), cs.clone(), p.body[at + 1..n - 1].to_vec())),
        _ => None,
    }
}

/// Greedy multiset matching with answer equivalence (renaming of hidden variables, order inside
/// constraint sets) and equal tag logs.
fn multiset_equal(a: &[(EAnswer, Vec<u32>)], b: &[(EAnswer, Vec<u32>)]) -> bool {
    if a.len() != b.len() {
        return false;
    }
    let mut used = vec![false; b.len()];
    for (x, px) in a.iter() {
        let mut found = false;
        for (j, (y, py)) in b.iter().enumerate() {
            if !used[j] && px == py && equivalent(x, y) {
                used[j] = true;
                found = true;
                break;
            }
        }
        if !found {
            return false;
        }
    }
    true
}

fn tagged(out: &StatesOut) -> Vec<(EAnswer, Vec<u32>)> {
    out.answers.iter().cloned().zip(out.snaps.iter().map(|s| s.path.clone())).collect()
}

fn show(v: &[(EAnswer, Vec<u32>)]) -> String {
    v.iter()
        .map(|(a, p)| format!("{} {:?}", crate::checks::c02::show_answers(std::slice::from_ref(a)), p))
        .collect::<Vec<_>>()
        .join(" ; ")
}

impl Check for C10Check {
    fn id(&self) -> &'static str {
        "C10"
    }

    fn cases(&self, tier: Tier) -> usize {
        match tier {
            Tier::Quick => 1_000_000,
            Tier::Thorough => 20_000_000,
        }
    }

    fn generate(&self, seed: u64, index: u64, _tier: Tier) -> Case {
        let mut st = streams(seed, "C10", index);
        let fd = st.workload.chance(1, 2);
        let mut suffix: Vec<G> = vec![];
        let mut nq = 3;
        let (prefix, a, b, c) = {
            let mut g = Gen {
                w: &mut st.workload,
                l: &mut st.leaves,
                next_leaf: 0,
                next_var: 10,
                fd,
                vars: vec![0, 1, 2],
            };
            let mut prefix = g.prefix();
            let a = g.branch(1);
            let b = g.branch(2);
            let c = if g.w.chance(1, 4) { Some(g.branch(3)) } else { None };
            if !fd && g.w.chance(1, 5) {
                // A structure around the shared variables is built before the branches bind them,
                // and ONE project goal after the conde reads it in the states of every branch.
                let (s, out) = (3, 4);
                let (x, y) = (*g.w.pick(&g.vars), *g.w.pick(&g.vars));
                let shape = match g.w.below(4) {
                    0 => T::list(vec![T::V(x)]),
                    1 => T::list(vec![T::V(x), T::V(y)]),
                    2 => T::cmp(0, T::V(x), T::V(y)),
                    _ => T::list(vec![T::I(0), T::list(vec![T::V(x)])]),
                };
                prefix.insert(0, G::Eq(T::V(s), shape));
                let body = match g.w.below(3) {
                    0 => vec![G::Conde(vec![
                        vec![G::Prim(PFn::IsGround, T::V(s), T::Nil), G::Eq(T::V(out), T::S("ground".into()))],
                        vec![G::Eq(T::V(out), T::S("any".into()))],
                    ])],
                    1 => vec![G::Conde(vec![
                        vec![G::Prim(PFn::HeadSquare, T::V(s), T::V(out))],
                        vec![G::Eq(T::V(out), T::S("any".into()))],
                    ])],
                    _ => vec![G::Eq(T::V(out), T::V(s))],
                };
                nq = 5;
                suffix.push(G::Project(vec![s], body));
            }
            (prefix, a, b, c)
        };
        let (program, _) = programs(nq, &prefix, &a, &b, c.as_deref(), &suffix);
        // stateless schedules only: a branch must see the same iteration orders alone and beside
        // its sibling, so that nothing but a leak can make its answers differ
        let s = &mut st.schedule;
        let policy = match s.below(5) {
            0 => Policy::Identity,
            1 => Policy::Reverse,
            2 => Policy::Rotate(1 + s.below(3) as u32),
            _ => Policy::Keyed,
        };
        let yield_rate = *s.pick(&[0u8, 0, 2, 6]);
        let cfg = SimCfg {
            policy,
            seed: s.next_u64(),
            site_ratio: *s.pick(&[8u8, 16, 16]),
            yield_rate,
            yield_sites: if yield_rate == 0 { 0 } else { 1 + s.below(15) as u8 },
            quanta_budget: 200_000,
            work_cap: 12_800_000,
            explicit_orders: None,
            explicit_yields: None,
        };
        let fork_after = st.consumer.below(6);
        Case {
            property: "C10".into(),
            oracle: if fd { "branches-fd" } else { "branches-tree" }.into(),
            program,
            cfg,
            extra: json!({"fork_after": fork_after}),
        }
    }

    fn valid(&self, case: &Case) -> bool {
        valid::program_ok(&case.program)
            && (case.program.nq == 3 || case.program.nq == 5)
            && matches!(case.cfg.policy, Policy::Identity | Policy::Reverse | Policy::Rotate(_) | Policy::Keyed)
            && match split(&case.program) {
                Some((_, cs, suffix)) => {
                    cs.len() >= 2
                        && cs.len() <= 3
                        && suffix.iter().all(|g| matches!(g, G::Project(..)))
                        && !cs.iter().flatten().any(|g| g.any(|x| matches!(x, G::Project(..) | G::Prim(..))))
                }
                None => false,
            }
            && !case.program.any(|g| matches!(g, G::Anyo(_) | G::Conda(_) | G::Condu(_) | G::Onceo(_)))
            && !crate::refint::is_infinite(&case.program)
    }

    fn rule(&self) -> String {
        "case = prefix P (disequalities, or FD domains + distinctfd/ltefd, a user tag; in a tenth of the cases also a structure \
         around the shared variables, read by ONE project goal placed after the conde, so that the states of every branch reach \
         the same goal object) followed by conde { A, B [, C] } whose \
         branches post == / != / FD goals, domain narrowings and user tags on the three shared query variables, with \
         simulated leaf suspensions between their goals so that the siblings' steps interleave in many patterns; x stateless \
         schedule (identity / reverse / rotate / keyed iteration order, yields) applied unchanged to every run; x a fork point. \
         Oracle: the multiset of (answer, user tag log) of P,conde{A,B,..} equals the union of the multisets of P,A and P,B \
         (and P,C) run alone; every tag log names exactly one branch; a clone of the suspended stream taken after k answers \
         delivers exactly the remainder the original delivers (same multiset). Answers are compared up to renaming and order \
         inside constraint sets. distinct = (program, fork point, decision trace); non-trivial = at least two branches have \
         answers or a suspension/yield interleaved the branches, and at least one answer was compared"
            .into()
    }

    fn run(&self, case: &Case) -> CaseResult {
        let mut facts = Facts::default();
        crate::checks::c06::fault_facts(&case.program, &mut facts);
        let (prefix, clauses, suffix) = match split(&case.program) {
            Some(x) => x,
            None => return CaseResult { verdict: Verdict::Inconclusive("malformed".into()), facts },
        };
        let third = clauses.get(2).map(|c| c.as_slice());
        let (full, alone) = programs(case.program.nq, &prefix, &clauses[0], &clauses[1], third, &suffix);
        let fork_after = case.extra["fork_after"].as_u64().unwrap_or(0) as usize;
        let whole = run_states(&full, &case.cfg, 100_000, Some(fork_after));
        facts.trace_hash = crate::rng::mix(&[whole.stats.trace_hash, fork_after as u64]);
        facts.stats.push(whole.stats.clone());
        let bad_end = |out: &StatesOut, facts: &Facts| -> Option<CaseResult> {
            match &out.end {
                End::Exhausted => None,
                End::Panic(pi) => Some(CaseResult {
                    verdict: Verdict::Violation { class: format!("panic@{}", pi.location), detail: pi.message.clone() },
                    facts: facts.clone(),
                }),
                _ => Some(CaseResult { verdict: Verdict::Inconclusive("budget".into()), facts: facts.clone() }),
            }
        };
        if let Some(r) = bad_end(&whole, &facts) {
            return r;
        }
        let got = tagged(&whole);
        let mut expect: Vec<(EAnswer, Vec<u32>)> = vec![];
        let mut productive = 0;
        for p in alone.iter() {
            let out = run_states(p, &case.cfg, 100_000, None);
            facts.stats.push(out.stats.clone());
            if let Some(r) = bad_end(&out, &facts) {
                return r;
            }
            if !out.answers.is_empty() {
                productive += 1;
            }
            expect.extend(tagged(&out));
        }
        facts.answers_compared += got.len() as u64;
        if !multiset_equal(&got, &expect) {
            return CaseResult {
                verdict: Verdict::Violation {
                    class: "branches-not-isolated".into(),
                    detail: format!(
                        "conde of all branches: [{}] but the branches run alone give [{}]",
                        show(&got),
                        show(&expect)
                    ),
                },
                facts,
            };
        }
        // every tag log must name exactly one branch (1, 2 or 3) after the prefix tag
        for (_, path) in got.iter() {
            let branch_tags: Vec<u32> = path.iter().cloned().filter(|t| *t < 10).collect();
            if path.first() != Some(&100) || branch_tags.len() != 1 {
                return CaseResult {
                    verdict: Verdict::Violation {
                        class: "user-state-leaked-between-branches".into(),
                        detail: format!("tag log {:?}", path),
                    },
                    facts,
                };
            }
        }
        // fork: the clone delivers what the original delivered after the fork point
        if let Some(rest) = &whole.fork_rest {
            if whole.fork_at <= whole.answers.len() {
                *facts.faults.entry("fork").or_insert(0) += 1;
                let original_rest: Vec<(EAnswer, Vec<u32>)> =
                    whole.answers[whole.fork_at..].iter().cloned().map(|a| (a, vec![])).collect();
                let copy_rest: Vec<(EAnswer, Vec<u32>)> = rest.iter().cloned().map(|a| (a, vec![])).collect();
                facts.answers_compared += copy_rest.len() as u64;
                if !multiset_equal(&original_rest, &copy_rest) {
                    return CaseResult {
                        verdict: Verdict::Violation {
                            class: "forked-stream-differs".into(),
                            detail: format!(
                                "after {} answers the original delivered [{}] but the clone [{}]",
                                whole.fork_at,
                                show(&original_rest),
                                show(&copy_rest)
                            ),
                        },
                        facts,
                    };
                }
            }
        }
        facts.nontrivial = productive >= 2 || (got.len() >= 1 && !facts.faults.is_empty());
        CaseResult { verdict: Verdict::Pass, facts }
    }
}
