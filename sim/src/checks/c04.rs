//! C04 — reordering conjuncts or disjuncts preserves the answer multiset.
use crate::ast::*;
use crate::checks::c02::pure_tree;
use crate::checks::c16::{engine_multiset, fd_opts_for};
use crate::engine::{run_program, EAnswer, End};
use crate::framework::*;
use crate::gen_fd::{self, Val};
use crate::gen_search;
use crate::gen_tree::{self, TreeOpts};
use crate::r2;
use crate::refint::{self, R1};
use crate::rng::{mix, Rng};
use crate::valid;
use serde_json::json;
use std::collections::BTreeMap;

pub struct C04Check;
pub static C04: C04Check = C04Check;

fn fd_or_neq(p: &Program) -> bool {
    !p.any(|g| {
        !matches!(
            g,
            G::Succeed
                | G::Fail
                | G::Eq(..)
                | G::Neq(..)
                | G::Conj(_)
                | G::Conde(_)
                | G::Fresh(..)
                | G::Dom(..)
                | G::DomRange(..)
                | G::Ltefd(..)
                | G::Ltfd(..)
                | G::Plusfd(..)
                | G::Minusfd(..)
                | G::Timesfd(..)
                | G::Diseqfd(..)
                | G::Distinctfd(..)
        )
    })
}

/// For every answer, which of the sample assignments it covers; sorted (a multiset of sets).
fn coverage(answers: &[EAnswer], sigmas: &[T]) -> Vec<Vec<bool>> {
    let mut v: Vec<Vec<bool>> = answers
        .iter()
        .map(|a| sigmas.iter().map(|s| r2::covers(a, s)).collect())
        .collect();
    v.sort();
    v
}

fn run_all(p: &Program, cfg: &crate::driver::SimCfg, facts: &mut Facts) -> Result<Vec<EAnswer>, CaseResult> {
    let run = run_program(p, cfg, 100_000, false);
    facts.stats.push(run.stats.clone());
    facts.trace_hash = mix(&[facts.trace_hash, run.stats.trace_hash]);
    match &run.end {
        End::Exhausted => Ok(run.answers),
        End::Panic(pi) => Err(CaseResult {
            verdict: Verdict::Violation { class: format!("panic@{}", pi.location), detail: pi.message.clone() },
            facts: facts.clone(),
        }),
        _ => Err(CaseResult { verdict: Verdict::Inconclusive("budget".into()), facts: facts.clone() }),
    }
}

impl Check for C04Check {
    fn id(&self) -> &'static str {
        "C04"
    }

    fn cases(&self, tier: Tier) -> usize {
        match tier {
            Tier::Quick => 80_000,
            Tier::Thorough => 1_600_000,
        }
    }

    fn generate(&self, seed: u64, index: u64, tier: Tier) -> Case {
        let mut st = streams(seed, "C04", index);
        let tree = st.workload.chance(1, 2);
        let program = if tree {
            let mut o = TreeOpts::small();
            o.allow_conde = true;
            gen_tree::gen_program(&mut st.workload, &o)
        } else {
            let mut o = fd_opts_for(tier, &mut st.workload);
            o.allow_neq = true;
            o.allow_conde = true;
            gen_fd::gen_program(&mut st.workload, &o)
        };
        let k = if tier == Tier::Thorough { 8 } else { 3 };
        let perms: Vec<u64> = (0..k).map(|_| st.consumer.next_u64() % 1_000_000_007).collect();
        let cfg = gen_search::sim_cfg(&mut st.schedule, 400_000);
        // a sixth of the cases run every variant as the body of a dfs block
        let dfs = st.consumer.chance(1, 6);
        Case {
            property: "C04".into(),
            oracle: if tree { "tree-instance-sets" } else { "fd-projections" }.into(),
            program,
            cfg,
            extra: json!({"perm_seeds": perms, "dfs": dfs}),
        }
    }

    fn valid(&self, case: &Case) -> bool {
        valid::program_ok(&case.program)
            && case.extra["perm_seeds"].is_array()
            && match case.oracle.as_str() {
                "tree-instance-sets" => pure_tree(&case.program) && case.program.nq <= 2,
                "fd-projections" => {
                    fd_or_neq(&case.program) && case.program.nq == 1 && gen_fd::brute_force(&case.program).is_some()
                }
                _ => false,
            }
    }

    fn rule(&self) -> String {
        "case = terminating program (tree family: ==, !=, conde, fresh; FD family: CLP(FD) constraints, ==, != on FD \
         variables, conde) x K seeded permutations of every conjunction and every clause list (3 quick, 8 thorough; one case in six runs all of them inside a dfs block) x one \
         schedule (iteration-order policy, yields) applied to all of them. Oracle: the answer multiset of every permutation \
         equals that of the original AND both equal the absolute reference, so a disagreement names the wrong ordering. Tree \
         family: answers compared as sets of ground instances over the sample universe of R2 (multiset of coverage sets; \
         reference: R1's answers). FD family: multiset of ground query projections (reference: brute force R3). distinct = \
         (program, permutation seeds, decision trace); non-trivial = some permutation differs from the original program and \
         at least one answer was compared or an empty result verified"
            .into()
    }

    fn run(&self, case: &Case) -> CaseResult {
        let mut facts = Facts::default();
        let p = &case.program;
        let perm_seeds: Vec<u64> = case.extra["perm_seeds"]
            .as_array()
            .map(|a| a.iter().filter_map(|x| x.as_u64()).collect())
            .unwrap_or_default();
        let mut variants: Vec<(String, Program)> = vec![("original".into(), p.clone())];
        for s in perm_seeds.iter() {
            let mut r = Rng::new(mix(&[*s, 4]));
            variants.push((format!("permutation {}", s), gen_tree::permute(p, &mut r, true)));
        }
        let changed = variants.iter().skip(1).any(|(_, v)| v != p);
        let dfs = case.extra["dfs"].as_bool() == Some(true);
        let variants: Vec<(String, Program)> = variants.into_iter().map(|(n, v)| (n, wrap_dfs_if(&v, dfs))).collect();
        if case.oracle == "tree-instance-sets" {
            // sample assignments
            let u = r2::universe(p);
            let mut rng = Rng::new(mix(&[perm_seeds.first().cloned().unwrap_or(0), 12]));
            let mut l0 = r2::atoms(p);
            l0.push(T::Nil);
            let (mut sig, _) = r2::assignments(&l0, p.nq as usize, &mut rng, 1024);
            let (more, _) = r2::assignments(&u, p.nq as usize, &mut rng, 600);
            sig.extend(more);
            let sigmas: Vec<T> = sig.into_iter().map(T::list).collect();
            // absolute reference: R1's answers, read as (term, disequalities)
            let r1 = R1::new(p, refint::Opts { fuel: 30_000, ..Default::default() }).run();
            if r1.cut {
                return CaseResult { verdict: Verdict::Inconclusive("reference out of fuel".into()), facts };
            }
            let ref_answers: Vec<EAnswer> =
                r1.answers.iter().map(|a| EAnswer { term: a.term.clone(), diseqs: a.diseqs.clone() }).collect();
            let expect = coverage(&ref_answers, &sigmas);
            for (name, v) in variants.iter() {
                let answers = match run_all(v, &case.cfg, &mut facts) {
                    Ok(a) => a,
                    Err(r) => return r,
                };
                facts.answers_compared += answers.len() as u64;
                let got = coverage(&answers, &sigmas);
                if got != expect {
                    // empty coverage sets (answers covering nothing in the sample) are not
                    // distinguishable from each other; everything else must agree exactly
                    return CaseResult {
                        verdict: Verdict::Violation {
                            class: if name == "original" {
                                "answer-multiset-differs-from-reference".into()
                            } else {
                                "answer-multiset-changes-under-reordering".into()
                            },
                            detail: format!(
                                "{}: {} answers [{}] vs reference {} answers [{}]; program: {}",
                                name,
                                answers.len(),
                                crate::checks::c02::show_answers(&answers),
                                ref_answers.len(),
                                crate::checks::c02::show_answers(&ref_answers),
                                crate::show::program(v)
                            ),
                        },
                        facts,
                    };
                }
            }
        } else {
            let expected = match gen_fd::brute_force(p) {
                Some(e) => e,
                None => return CaseResult { verdict: Verdict::Inconclusive("outside R3".into()), facts },
            };
            for (name, v) in variants.iter() {
                let answers = match run_all(v, &case.cfg, &mut facts) {
                    Ok(a) => a,
                    Err(r) => return r,
                };
                facts.answers_compared += answers.len() as u64;
                let got: BTreeMap<Val, u64> = match engine_multiset(&answers) {
                    Ok(m) => m,
                    Err(e) => {
                        return CaseResult {
                            verdict: Verdict::Violation { class: "fd-answer-not-ground".into(), detail: format!("{}: {}", name, e) },
                            facts,
                        }
                    }
                };
                if got != expected.multiset {
                    let show = |m: &BTreeMap<Val, u64>| {
                        m.iter().map(|(k, c)| format!("{}x{}", gen_fd::show_val(k), c)).collect::<Vec<_>>().join(", ")
                    };
                    return CaseResult {
                        verdict: Verdict::Violation {
                            class: if name == "original" {
                                "answer-multiset-differs-from-reference".into()
                            } else {
                                "answer-multiset-changes-under-reordering".into()
                            },
                            detail: format!(
                                "{}: [{}] vs brute force [{}]; program: {}",
                                name,
                                show(&got),
                                show(&expected.multiset),
                                crate::show::program(v)
                            ),
                        },
                        facts,
                    };
                }
            }
        }
        facts.nontrivial = changed;
        CaseResult { verdict: Verdict::Pass, facts }
    }
}
