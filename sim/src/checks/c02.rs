//! C02 — disequality constraints (CLP(Tree)) are sound, complete and order-free.
use crate::ast::*;
use crate::engine::{run_program, EAnswer, End};
use crate::framework::*;
use crate::gen_search;
use crate::gen_tree::{self, TreeOpts};
use crate::r2;
use crate::rng::{mix, Rng};
use crate::valid;
use serde_json::json;

pub struct C02Check;
pub static C02: C02Check = C02Check;

pub fn pure_tree(p: &Program) -> bool {
    !p.any(|g| {
        !matches!(g, G::Succeed | G::Fail | G::Eq(..) | G::Neq(..) | G::Conj(_) | G::Conde(_) | G::Fresh(..))
    })
}

pub struct Comparison {
    pub compared: u64,
    pub exhaustive: bool,
    /// first disagreement: (assignment, program accepts, engine covers)
    pub disagreement: Option<(Vec<T>, bool, bool)>,
    pub undecided: u64,
}

/// Compare the engine's answers with the program's ground solutions over the universe.
pub fn compare(p: &Program, answers: &[EAnswer], seed: u64) -> Comparison {
    let u = r2::universe(p);
    let hidden = r2::has_hidden(p);
    let mut rng = Rng::new(seed);
    let nq = p.nq as usize;
    // everything over the atoms, plus all of U^nq or a sample of it
    let mut l0 = r2::atoms(p);
    l0.push(T::Nil);
    let (mut sigmas, _) = r2::assignments(&l0, nq, &mut rng, 4096);
    let (more, exhaustive) = r2::assignments(&u, nq, &mut rng, 3000);
    sigmas.extend(more);
    let mut cmp = Comparison { compared: 0, exhaustive, disagreement: None, undecided: 0 };
    for sigma in sigmas.iter() {
        let truth = match r2::accepts(p, sigma, hidden) {
            Some(t) => t,
            None => {
                cmp.undecided += 1;
                continue;
            }
        };
        let sl = T::list(sigma.clone());
        let covered = answers.iter().any(|a| r2::covers(a, &sl));
        cmp.compared += 1;
        if truth != covered {
            cmp.disagreement = Some((sigma.clone(), truth, covered));
            break;
        }
    }
    cmp
}

impl Check for C02Check {
    fn id(&self) -> &'static str {
        "C02"
    }

    fn cases(&self, tier: Tier) -> usize {
        match tier {
            Tier::Quick => 20_000,
            Tier::Thorough => 400_000,
        }
    }

    fn generate(&self, seed: u64, index: u64, tier: Tier) -> Case {
        if let Some(c) = crate::surface::case_for("C02", seed, index) {
            return c;
        }
        let mut st = streams(seed, "C02", index);
        let mut o = TreeOpts::small();
        if tier == Tier::Thorough && st.workload.chance(1, 3) {
            o.max_goals = 8;
        }
        if st.workload.chance(1, 3) {
            o.max_hidden = 0;
        }
        let program = gen_tree::gen_program(&mut st.workload, &o);
        let cfg = gen_search::sim_cfg(&mut st.schedule, 100_000);
        let order = st.consumer.below(3);
        Case {
            property: "C02".into(),
            oracle: "ground-instances".into(),
            program,
            cfg,
            extra: json!({"order": order, "perm_seed": st.consumer.next_u64() % 1_000_000, "dfs": st.consumer.chance(1, 8)}),
        }
    }

    fn valid(&self, case: &Case) -> bool {
        if crate::surface::is_surface(case) {
            return crate::surface::valid(case);
        }
        valid::program_ok(&case.program) && pure_tree(&case.program) && case.program.nq <= 2
    }

    fn rule(&self) -> String {
        "Every 64th case is one of the macro-written surface programs for this property (sim/src/surface.rs: list literals with literal tails, three-head improper lists, distinct wildcards, nested empty lists, negative literals in == and !=). case = pure tree program (==, !=, conj, conde, fresh; 1-2 query and 0-2 hidden variables; terms of depth <= 2 over \
         {0, 1, \"a\"} with lists, improper lists and two #[compound] types; a fifth of the programs contain a \
         family of related disequalities) posted in the generated, the reversed or a seeded random order (one case in eight as the body of a dfs block), x (iteration-order policy over \
         run_constraints / push_and_normalize / normalize / purify / DisequalityConstraint::{run,subsumes,walk_star}, \
         yields). Oracle R2: over the universe U = atoms (program constants + 2 fresh atoms + []) + pairs + two-element \
         lists, the set of query-variable assignments covered by the engine's answers (term matched, every reported \
         disequality of LResult.1 satisfiable with hidden variables existential) must equal the set the program accepts \
         (brute-force structural evaluation without hidden variables; reference-interpreter satisfiability with them). \
         All of atoms^nq always, U^nq exhaustively when <= 3000, else 3000 sampled assignments. distinct = (program, order, \
         decision trace); non-trivial = the program posts a disequality and at least one assignment was compared"
            .into()
    }

    fn run(&self, case: &Case) -> CaseResult {
        if crate::surface::is_surface(case) {
            return crate::surface::run_case(case);
        }
        let mut facts = Facts::default();
        let order = case.extra["order"].as_u64().unwrap_or(0);
        let perm_seed = case.extra["perm_seed"].as_u64().unwrap_or(0);
        let p = match order {
            0 => case.program.clone(),
            1 => gen_tree::reverse_conjunctions(&case.program),
            _ => {
                let mut r = Rng::new(mix(&[perm_seed, 77]));
                gen_tree::permute(&case.program, &mut r, true)
            }
        };
        let p = wrap_dfs_if(&p, case.extra["dfs"].as_bool() == Some(true));
        let run = run_program(&p, &case.cfg, 10_000, false);
        facts.trace_hash = mix(&[run.stats.trace_hash, order, perm_seed]);
        facts.stats.push(run.stats.clone());
        match &run.end {
            End::Exhausted => {}
            End::Panic(pi) => {
                return CaseResult {
                    verdict: Verdict::Violation { class: format!("panic@{}", pi.location), detail: pi.message.clone() },
                    facts,
                }
            }
            _ => return CaseResult { verdict: Verdict::Inconclusive("budget".into()), facts },
        }
        let cmp = compare(&case.program, &run.answers, mix(&[perm_seed, 5]));
        facts.answers_compared += cmp.compared;
        if let Some((sigma, truth, covered)) = cmp.disagreement {
            let class = if covered && !truth { "diseq-unsound-instance" } else { "diseq-missing-instance" };
            let shown: Vec<String> = sigma.iter().map(|t| t.show()).collect();
            return CaseResult {
                verdict: Verdict::Violation {
                    class: class.into(),
                    detail: format!(
                        "query assignment {:?}: program accepts = {}, engine answers cover = {}; posting order {}: {}; answers: {}",
                        shown,
                        truth,
                        covered,
                        order,
                        crate::show::program(&p),
                        show_answers(&run.answers)
                    ),
                },
                facts,
            };
        }
        if cmp.compared == 0 {
            return CaseResult { verdict: Verdict::Inconclusive("reference undecided".into()), facts };
        }
        facts.nontrivial = case.program.any(|g| matches!(g, G::Neq(..)));
        CaseResult { verdict: Verdict::Pass, facts }
    }
}

pub fn show_answers(answers: &[EAnswer]) -> String {
    answers
        .iter()
        .map(|a| {
            let cs: Vec<String> = a
                .diseqs
                .iter()
                .map(|c| {
                    format!(
                        "({})",
                        c.iter().map(|(x, y)| format!("{} = {}", x.show(), y.show())).collect::<Vec<_>>().join(" & ")
                    )
                })
                .collect();
            if cs.is_empty() {
                a.term.show()
            } else {
                format!("{} where not {}", a.term.show(), cs.join(", not "))
            }
        })
        .collect::<Vec<_>>()
        .join(" ; ")
}
