//! C11 — project sees the current value of projected variables in every branch.
use crate::ast::*;
use crate::checks::c06::{fault_facts, show_terms};
use crate::consumer::{self, Op};
use crate::engine::End;
use crate::framework::*;
use crate::gen_search;
use crate::refint::{self, R1};
use crate::rng::Rng;
use crate::valid;
use serde_json::json;

pub struct C11Check;
pub static C11: C11Check = C11Check;

struct Gen<'a> {
    w: &'a mut Rng,
    l: &'a mut Rng,
    next_leaf: u32,
    next_var: u32,
}

impl<'a> Gen<'a> {
    fn latency(&mut self) -> u8 {
        if self.l.chance(1, 2) {
            0
        } else {
            self.l.below(5) as u8
        }
    }

    fn shape(&mut self) -> Shape {
        match self.l.below(4) {
            0 => Shape::Pauses,
            1 => Shape::Iter,
            _ => Shape::Chain,
        }
    }

    /// A goal binding `v` in 0..n ways (n states will reach what follows).
    fn binder(&mut self, v: VarIx, other: Option<VarIx>) -> G {
        let val = |g: &mut Self| -> T {
            if let Some(o) = other {
                // a structure around another variable that is bound elsewhere (possibly in
                // several ways, possibly later): projection must walk into it per state
                if g.w.chance(1, 12) {
                    // compound terms around the variable: directly, nested in another compound,
                    // behind a list inside a compound
                    let n = T::I(g.w.range(0, 3));
                    return match g.w.below(5) {
                        0 => T::cmp(0, T::V(o), n),
                        1 => T::cmp(0, n, T::cmp(1, T::I(2), T::V(o))),
                        2 => T::cmp(1, T::cmp(0, T::V(o), n), T::I(1)),
                        3 => T::cmp(0, T::list(vec![n, T::V(o)]), T::cmp(0, T::I(1), T::list(vec![T::V(o)]))),
                        _ => T::list(vec![T::cmp(1, n, T::cmp(1, T::V(o), T::Nil))]),
                    };
                }
                if g.w.chance(1, 4) {
                    return match g.w.below(6) {
                        0 => T::list(vec![T::V(o)]),
                        1 => T::list(vec![T::I(g.w.range(0, 3)), T::V(o)]),
                        2 => T::cons(T::V(o), T::V(o)),
                        // the variable only below the first level (no variable at the top level)
                        3 => T::list(vec![T::list(vec![T::V(o), T::I(1)]), T::list(vec![T::I(2)])]),
                        4 => T::list(vec![T::I(g.w.range(0, 3)), T::list(vec![T::I(2), T::list(vec![T::V(o)])])]),
                        _ => T::list(vec![T::cmp(0, T::V(o), T::I(1))]),
                    };
                }
            }
            match g.w.below(6) {
                0 => T::list(vec![T::I(g.w.range(1, 4))]),
                1 => T::S("a".into()),
                _ => T::I(g.w.range(0, 5)),
            }
        };
        match self.w.below(6) {
            0 => G::Succeed, // left unbound
            1 => {
                let n = 1 + self.w.below(3);
                let items: Vec<T> = (0..n).map(|_| val(self)).collect();
                G::Call(Rel::Member, vec![T::V(v), T::list(items)])
            }
            2 => {
                let n = 2 + self.w.below(2);
                G::Conde((0..n).map(|_| vec![G::Eq(T::V(v), val(self))]).collect())
            }
            3 => G::Eq(T::V(v), val(self)),
            _ => {
                let id = self.next_leaf;
                self.next_leaf += 1;
                let n = 1 + self.l.below(3);
                let answers = (0..n).map(|_| LeafAns { value: val(self), latency: self.latency() }).collect();
                G::Leaf(Leaf { id, target: T::V(v), answers, shape: self.shape(), tail: Tail::End, end_latency: 0 })
            }
        }
    }

    /// A suspension point: a leaf on an auxiliary variable with latency.
    fn suspension(&mut self) -> G {
        let aux = self.next_var;
        self.next_var += 1;
        let id = self.next_leaf;
        self.next_leaf += 1;
        let n = 1 + self.l.below(2);
        let answers = (0..n)
            .map(|i| LeafAns { value: T::I(100 + i as i64), latency: 1 + self.l.below(5) as u8 })
            .collect();
        G::Fresh(
            vec![aux],
            vec![G::Leaf(Leaf {
                id,
                target: T::V(aux),
                answers,
                shape: self.shape(),
                tail: Tail::End,
                end_latency: self.l.below(3) as u8,
            })],
        )
    }

    fn body(&mut self, projected: &[VarIx], unprojected: &[VarIx], outs: &[VarIx], depth: u32) -> Vec<G> {
        let n = 1 + self.w.below(4);
        let mut gs = vec![];
        for _ in 0..n {
            let x = *self.w.pick(projected);
            let out = T::V(*self.w.pick(outs));
            let g = match self.w.below(9) {
                0 | 1 => G::Prim(PFn::Square, T::V(x), out),
                2 => {
                    if self.w.chance(1, 2) {
                        G::Prim(PFn::Succ, T::V(x), out)
                    } else {
                        G::Prim(PFn::HeadSquare, T::V(x), out)
                    }
                }
                3 => G::Prim(PFn::IsNumber, T::V(x), T::Nil),
                4 => {
                    let o2 = self.w.pick(outs);
                    G::Conde(vec![
                        vec![G::Prim(PFn::IsVar, T::V(x), T::Nil), G::Eq(T::V(*o2), T::S("var".into()))],
                        vec![G::Prim(PFn::IsNumber, T::V(x), T::Nil), G::Eq(T::V(*o2), T::S("num".into()))],
                    ])
                }
                5 => self.suspension(),
                6 => {
                    if self.w.chance(1, 2) {
                        self.suspension()
                    } else {
                        // is the projected value free of variables as it stands?
                        let o2 = self.w.pick(outs);
                        G::Conde(vec![
                            vec![G::Prim(PFn::IsGround, T::V(x), T::Nil), G::Eq(T::V(*o2), T::S("ground".into()))],
                            vec![G::Eq(T::V(*o2), T::S("any".into()))],
                        ])
                    }
                }
                7 if depth > 0 && !unprojected.is_empty() => {
                    // a nested project of a variable that is not projected yet
                    let y = *self.w.pick(unprojected);
                    let mut all: Vec<VarIx> = projected.to_vec();
                    all.push(y);
                    let rest: Vec<VarIx> = unprojected.iter().cloned().filter(|v| *v != y).collect();
                    let inner = self.body(&all, &rest, outs, depth - 1);
                    G::Project(vec![y], inner)
                }
                _ => G::Eq(out, T::V(x)),
            };
            gs.push(g);
        }
        gs
    }
}

fn gen_program(w: &mut Rng, l: &mut Rng) -> Program {
    let mut g = Gen { w, l, next_leaf: 0, next_var: 10 };
    // query variables 0 and 1 receive results; 2 and 3 are the projected variables
    let x = 2;
    let y = 3;
    if g.w.chance(1, 6) {
        // The projected name already denotes a structure (as for a relation parameter called with
        // a list, or an outer project whose value still contains an unbound variable); the
        // variable inside it is bound between the outer and the inner project, in several ways.
        let shape = match g.w.below(3) {
            0 => T::list(vec![T::V(y)]),
            1 => T::list(vec![T::V(y), T::I(g.w.range(0, 3))]),
            _ => T::cons(T::V(y), T::V(y)),
        };
        let mut inner = vec![g.binder(y, None)];
        if g.w.chance(1, 2) {
            inner.push(g.suspension());
        }
        let body = g.body(&[x], &[], &[0, 1], 0);
        inner.push(G::Project(vec![x], body));
        let mut goals = vec![G::Eq(T::V(x), shape)];
        if g.w.chance(1, 3) {
            goals.push(g.suspension());
        }
        goals.push(G::Project(vec![x], inner));
        return Program { nq: 2, defs: vec![], body: vec![G::Fresh(vec![x, y], goals)] };
    }
    let mut goals = vec![g.binder(x, Some(y))];
    let two = g.w.chance(1, 3);
    let bind_y = two || g.w.chance(2, 3);
    if bind_y {
        let by = g.binder(y, None);
        if g.w.chance(1, 2) {
            goals.push(by);
        } else {
            goals.insert(0, by);
        }
    }
    if g.w.chance(1, 3) {
        goals.push(g.suspension());
    }
    let projected: Vec<VarIx> = if two { vec![x, y] } else { vec![x] };
    let unprojected: Vec<VarIx> = if two { vec![] } else { vec![y] };
    let body = g.body(&projected, &unprojected, &[0, 1], 1);
    goals.push(G::Project(projected, body));
    if g.w.chance(1, 4) {
        // the same variables projected again by a second project goal
        let body2 = g.body(&[x], &[], &[0, 1], 0);
        goals.push(G::Project(vec![x], body2));
    }
    Program { nq: 2, defs: vec![], body: vec![G::Fresh(vec![x, y], goals)] }
}

impl Check for C11Check {
    fn id(&self) -> &'static str {
        "C11"
    }

    fn cases(&self, tier: Tier) -> usize {
        match tier {
            Tier::Quick => 200_000,
            Tier::Thorough => 4_000_000,
        }
    }

    fn generate(&self, seed: u64, index: u64, _tier: Tier) -> Case {
        if let Some(c) = crate::surface::case_for("C11", seed, index) {
            return c;
        }
        let mut st = streams(seed, "C11", index);
        let program = gen_program(&mut st.workload, &mut st.leaves);
        let cfg = gen_search::sim_cfg(&mut st.schedule, 100_000);
        let script = consumer::gen_script(&mut st.consumer, 3, 12);
        Case {
            property: "C11".into(),
            oracle: "project-values".into(),
            program,
            cfg,
            extra: json!({"script": serde_json::to_value(&script).unwrap()}),
        }
    }

    fn valid(&self, case: &Case) -> bool {
        if crate::surface::is_surface(case) {
            return crate::surface::valid(case);
        }
        valid::program_ok(&case.program)
            && case.program.any(|g| matches!(g, G::Project(..)))
            && !refint::is_infinite(&case.program)
            && !case.program.any(|g| {
                matches!(
                    g,
                    G::Neq(..)
                        | G::Conda(_)
                        | G::Condu(_)
                        | G::Onceo(_)
                        | G::Dom(..)
                        | G::DomRange(..)
                        | G::Plusfd(..)
                        | G::Plusz(..)
                        | G::Timesz(..)
                )
            })
            && serde_json::from_value::<Vec<Op>>(case.extra["script"].clone()).is_ok()
    }

    fn rule(&self) -> String {
        "Every 64th case is one of the macro-written surface programs for this property (sim/src/surface.rs: project of two and three names, later body goals, operators and fresh blocks inside the body, variable chains, project in dfs) compared with a hand-listed expectation, under the same schedules. case = program in which 0..n states (via member / conde / leaves with several late answers) reach one or two \
         `project |x, y| { body }` goals, optionally nested or projecting the same variable again, whose bodies read the \
         projected value non-relationally (square, succ, is-number / is-var / is-ground tests; the values are numbers, strings, lists and #[compound] terms, also nested, around another variable) and contain suspension points so that they \
         are resumed after another state has projected, x (leaf timing, yields, reorders) x consumer history over ONE \
         long-lived Query (up to 3 iterators: sequential re-runs, interleaved next() calls, drops half way). Oracle: every \
         iterator that ran to exhaustion returns exactly the reference interpreter's answer multiset (project evaluated on the \
         reaching state's own walked value), a dropped iterator returned a sub-multiset, and nothing panics. distinct = \
         (program, script, decision trace); non-trivial = the project goal was reached by >= 2 states or the query ran >= 2 times"
            .into()
    }

    fn run(&self, case: &Case) -> CaseResult {
        if crate::surface::is_surface(case) {
            return crate::surface::run_case(case);
        }
        let mut facts = Facts::default();
        fault_facts(&case.program, &mut facts);
        let p = &case.program;
        let script: Vec<Op> = match serde_json::from_value(case.extra["script"].clone()) {
            Ok(s) => s,
            Err(_) => return CaseResult { verdict: Verdict::Inconclusive("bad script".into()), facts },
        };
        let r1 = R1::new(p, refint::Opts { fuel: 30_000, ..Default::default() }).run();
        if r1.cut {
            return CaseResult { verdict: Verdict::Inconclusive("reference out of fuel".into()), facts };
        }
        let mut expect: Vec<T> = r1.answers.iter().map(|a| a.term.clone()).collect();
        expect.sort();
        let out = consumer::run_script(p, &case.cfg, &script);
        facts.trace_hash = crate::rng::mix(&[out.stats.trace_hash, crate::rng::hash_str(&case.extra["script"].to_string())]);
        facts.stats.push(out.stats.clone());
        let news = script.iter().filter(|o| matches!(o, Op::New)).count();
        if news >= 2 {
            *facts.faults.entry("restart").or_insert(0) += 1;
        }
        if out.iters.iter().any(|i| i.dropped) {
            *facts.faults.entry("cancel").or_insert(0) += 1;
        }
        match &out.end {
            End::Limit => {}
            End::Panic(pi) => {
                return CaseResult {
                    verdict: Verdict::Violation { class: format!("panic@{}", pi.location), detail: pi.message.clone() },
                    facts,
                }
            }
            _ => return CaseResult { verdict: Verdict::Inconclusive("budget".into()), facts },
        }
        for (i, log) in out.iters.iter().enumerate() {
            let mut got: Vec<T> = log.answers.iter().map(|a| a.term.clone()).collect();
            got.sort();
            facts.answers_compared += got.len() as u64;
            if log.ended && !log.dropped {
                if got != expect {
                    return CaseResult {
                        verdict: Verdict::Violation {
                            class: "project-answers-differ".into(),
                            detail: format!(
                                "iterator #{} of {}: engine {:?} vs reference {:?}",
                                i,
                                out.iters.len(),
                                show_terms(&got),
                                show_terms(&expect)
                            ),
                        },
                        facts,
                    };
                }
            } else {
                // partial: must be a sub-multiset
                let mut rest = expect.clone();
                for g in got.iter() {
                    match rest.iter().position(|e| e == g) {
                        Some(k) => {
                            rest.remove(k);
                        }
                        None => {
                            return CaseResult {
                                verdict: Verdict::Violation {
                                    class: "project-answers-differ".into(),
                                    detail: format!(
                                        "iterator #{} (partial): answer {} not in reference {:?}",
                                        i,
                                        g.show(),
                                        show_terms(&expect)
                                    ),
                                },
                                facts,
                            }
                        }
                    }
                }
            }
        }
        facts.nontrivial = news >= 2 || expect.len() >= 2;
        CaseResult { verdict: Verdict::Pass, facts }
    }
}
