//! C09 — query iteration is lazy, fused and deterministic.
use crate::ast::*;
use crate::checks::c16::fd_opts_for;
use crate::consumer::{self, Op};
use crate::driver::{Policy, SimCfg};
use crate::engine::{run_program, EAnswer, End};
use crate::framework::*;
use crate::gen_fd;
use crate::gen_search::{Gen, Opts};
use crate::gen_tree::{self, TreeOpts};
use crate::refint;
use crate::rng::{mix, Rng};
use crate::valid;
use serde_json::json;
use std::collections::BTreeMap;

pub struct C09Check;
pub static C09: C09Check = C09Check;

const PREFIX: usize = 24;

/// Orient variable-variable pairs and re-sort, so that `x != y` and `y != x` compare equal.
fn normalise(a: &EAnswer) -> EAnswer {
    let is_var = |t: &T| matches!(t, T::Any(_) | T::V(_));
    let mut diseqs: Vec<Vec<(T, T)>> = a
        .diseqs
        .iter()
        .map(|c| {
            let mut pairs: Vec<(T, T)> = c
                .iter()
                .map(|(x, y)| if is_var(x) && is_var(y) && y < x { (y.clone(), x.clone()) } else { (x.clone(), y.clone()) })
                .collect();
            pairs.sort();
            pairs
        })
        .collect();
    diseqs.sort();
    EAnswer { term: a.term.clone(), diseqs }
}

fn rename_hidden(t: &T, m: &BTreeMap<u32, u32>) -> T {
    match t {
        T::V(k) => T::V(*m.get(k).unwrap_or(k)),
        T::Cons(h, tl) => T::cons(rename_hidden(h, m), rename_hidden(tl, m)),
        T::Cmp(k, a, b) => T::cmp(*k, rename_hidden(a, m), rename_hidden(b, m)),
        other => other.clone(),
    }
}

fn hidden_vars(a: &EAnswer) -> Vec<u32> {
    let mut out = vec![];
    for c in a.diseqs.iter() {
        for (x, y) in c.iter() {
            x.vars(&mut out);
            y.vars(&mut out);
        }
    }
    out.sort();
    out
}

/// Equal up to the order of elements in constraint sets and the naming of hidden variables.
pub fn equivalent(a: &EAnswer, b: &EAnswer) -> bool {
    let (na, nb) = (normalise(a), normalise(b));
    if na == nb {
        return true;
    }
    if na.term != nb.term || na.diseqs.len() != nb.diseqs.len() {
        return false;
    }
    let ha = hidden_vars(&na);
    let hb = hidden_vars(&nb);
    if ha.len() != hb.len() || ha.is_empty() || ha.len() > 5 {
        return false;
    }
    // try every bijection ha -> hb
    let mut perm: Vec<usize> = (0..ha.len()).collect();
    loop {
        let m: BTreeMap<u32, u32> = ha.iter().enumerate().map(|(i, v)| (*v, hb[perm[i]])).collect();
        let renamed = EAnswer {
            term: na.term.clone(),
            diseqs: na
                .diseqs
                .iter()
                .map(|c| c.iter().map(|(x, y)| (rename_hidden(x, &m), rename_hidden(y, &m))).collect())
                .collect(),
        };
        if normalise(&renamed) == nb {
            return true;
        }
        // next permutation
        let n = perm.len();
        let mut i = n;
        loop {
            if i < 2 {
                return false;
            }
            i -= 1;
            if perm[i - 1] < perm[i] {
                break;
            }
            if i == 1 {
                return false;
            }
        }
        let mut j = n - 1;
        while perm[j] <= perm[i - 1] {
            j -= 1;
        }
        perm.swap(i - 1, j);
        perm[i..].reverse();
    }
}

fn sequences_equivalent(a: &[EAnswer], b: &[EAnswer]) -> Option<usize> {
    if a.len() != b.len() {
        return Some(a.len().min(b.len()));
    }
    for (i, (x, y)) in a.iter().zip(b.iter()).enumerate() {
        if !equivalent(x, y) {
            return Some(i);
        }
    }
    None
}

fn reorder_cfg(r: &mut Rng, budget: u64) -> SimCfg {
    let policy = match r.below(6) {
        0 => Policy::Reverse,
        1 => Policy::Rotate(1 + r.below(3) as u32),
        2 => Policy::Keyed,
        3 => Policy::Stable,
        _ => Policy::Fresh,
    };
    SimCfg {
        policy,
        seed: r.next_u64(),
        site_ratio: *r.pick(&[8u8, 16, 16]),
        yield_rate: 0,
        yield_sites: 0,
        quanta_budget: budget,
        work_cap: budget.saturating_mul(64),
        explicit_orders: None,
        explicit_yields: None,
    }
}

fn show_answer(a: &EAnswer) -> String {
    crate::checks::c02::show_answers(std::slice::from_ref(a))
}

impl Check for C09Check {
    fn id(&self) -> &'static str {
        "C09"
    }

    fn cases(&self, tier: Tier) -> usize {
        match tier {
            Tier::Quick => 60_000,
            Tier::Thorough => 1_200_000,
        }
    }

    fn generate(&self, seed: u64, index: u64, tier: Tier) -> Case {
        let mut st = streams(seed, "C09", index);
        if index % 16 == 7 {
            // Consumer-versus-search family: one clause answers at once, another runs k trivial
            // goals and then starts a committed-choice operator whose head never answers — a
            // single engine step that does not return. The search itself yields the answers
            // before it takes that step; the consumer must hand them over without stepping
            // further than the search needed.
            let w = &mut st.workload;
            let k = w.below(9) as u32;
            let mut late: Vec<G> = (0..k).map(|i| G::Eq(T::V(60 + i), T::I(i as i64))).collect();
            let stall = G::Leaf(Leaf {
                id: 710,
                target: T::V(0),
                answers: vec![],
                shape: Shape::Chain,
                tail: Tail::Stall,
                end_latency: 0,
            });
            late.push(match w.below(3) {
                0 => G::Onceo(vec![stall]),
                1 => G::Conda(vec![vec![stall, G::Succeed], vec![G::Eq(T::V(0), T::I(8103))]]),
                _ => G::Condu(vec![vec![stall, G::Succeed], vec![G::Eq(T::V(0), T::I(8103))]]),
            });
            let late_clause = vec![G::Fresh((60..60 + k.max(1)).collect(), late)];
            let mut clauses = vec![vec![G::Eq(T::V(0), T::I(8101))]];
            if w.chance(1, 2) {
                clauses.push(vec![G::Call(Rel::Member, vec![T::V(0), T::list(vec![T::I(8104), T::I(8105)])])]);
            }
            let at = w.below(clauses.len() + 1);
            clauses.insert(at, late_clause);
            return Case {
                property: "C09".into(),
                oracle: "consumer-vs-search".into(),
                program: Program { nq: 1, defs: vec![], body: vec![G::Conde(clauses)] },
                cfg: SimCfg::exact(200_000),
                extra: json!({"schedule_seeds": [], "script": []}),
            };
        }
        let kind = st.workload.below(20);
        let (program, family) = if kind < 6 {
            let mut o = Opts::finite_small();
            o.infinite = false;
            let mut g = Gen::new(&mut st.workload, &mut st.leaves, o);
            (g.program(false), "search")
        } else if kind < 9 {
            // productive infinite program: a finite part next to a never-ending producer
            let mut o = Opts::finite_small();
            o.infinite = false;
            o.max_depth = 2;
            let mut g = Gen::new(&mut st.workload, &mut st.leaves, o);
            let p = g.program(false);
            let n = 1 + g.l.below(3);
            let leaf = G::Leaf(Leaf {
                id: 700,
                target: T::V(0),
                answers: (0..n)
                    .map(|i| LeafAns { value: T::I(7000 + i as i64), latency: g.l.below(4) as u8 })
                    .collect(),
                shape: Shape::Chain,
                tail: Tail::End,
                end_latency: 0,
            });
            let producer = if g.w.chance(1, 2) {
                G::Anyo(vec![leaf])
            } else if let G::Leaf(mut l) = leaf {
                l.tail = Tail::Flood;
                G::Leaf(l)
            } else {
                unreachable!()
            };
            let mut clauses = vec![vec![G::Conj(p.body)], vec![producer]];
            if g.w.chance(1, 3) {
                // a depth-first sub-search that diverges silently in its first alternative: it
                // must not keep the producer from being scheduled
                let stall = G::Leaf(Leaf {
                    id: 701,
                    target: T::V(0),
                    answers: vec![],
                    shape: Shape::Chain,
                    tail: Tail::Stall,
                    end_latency: 0,
                });
                let block = G::Dfs(vec![G::Conde(vec![vec![stall], vec![G::Eq(T::V(0), T::I(7999))]])]);
                let at = g.w.below(clauses.len() + 1);
                clauses.insert(at, vec![block]);
            }
            if g.w.chance(1, 4) {
                // an interleaving clause that diverges silently (a chain of suspensions with no
                // disjunction in it): the first answers must still arrive
                let stall = G::Leaf(Leaf {
                    id: 702,
                    target: T::V(0),
                    answers: vec![],
                    shape: Shape::Chain,
                    tail: Tail::Stall,
                    end_latency: 0,
                });
                let at = g.w.below(clauses.len() + 1);
                clauses.insert(at, vec![stall]);
            }
            if g.w.chance(1, 4) {
                // a committed-choice operator whose head answers once and then searches forever
                // without a second answer: committing needs the first head answer only, so the
                // clause (and its siblings) must still deliver
                let stall = G::Leaf(Leaf {
                    id: 703,
                    target: T::V(0),
                    answers: vec![],
                    shape: Shape::Chain,
                    tail: Tail::Stall,
                    end_latency: 0,
                });
                let head = G::Conde(vec![vec![G::Eq(T::V(0), T::I(7998))], vec![stall]]);
                let op = match g.w.below(3) {
                    0 => G::Conda(vec![vec![head, G::Succeed], vec![G::Eq(T::V(0), T::I(7997))]]),
                    1 => G::Condu(vec![vec![head, G::Succeed], vec![G::Eq(T::V(0), T::I(7997))]]),
                    _ => G::Onceo(vec![head]),
                };
                let at = g.w.below(clauses.len() + 1);
                clauses.insert(at, vec![op]);
            }
            let body = vec![G::Conde(clauses)];
            (Program { nq: p.nq, defs: p.defs, body }, "infinite-producer")
        } else if kind < 14 {
            let o = TreeOpts::small();
            (gen_tree::gen_program(&mut st.workload, &o), "tree")
        } else {
            // programs inside the known-finding class `fd_order_class` are regenerated
            let mut tries = 0;
            loop {
                let mut o = fd_opts_for(tier, &mut st.workload);
                o.max_constraints = 2;
                let p = gen_fd::gen_program(&mut st.workload, &o);
                tries += 1;
                if crate::classes::fd_order_class(&p).is_none() || tries > 200 {
                    break (p, "fd");
                }
            }
        };
        let r = if tier == Tier::Thorough { 16 } else { 6 };
        let seeds: Vec<u64> = (0..r).map(|_| st.schedule.next_u64() % 1_000_000_007).collect();
        let script = consumer::gen_script(&mut st.consumer, 3, 10);
        Case {
            property: "C09".into(),
            oracle: family.into(),
            program,
            cfg: SimCfg::exact(200_000),
            extra: json!({"schedule_seeds": seeds, "script": serde_json::to_value(&script).unwrap()}),
        }
    }

    fn valid(&self, case: &Case) -> bool {
        valid::program_ok(&case.program)
            && case.cfg.is_exact()
            && serde_json::from_value::<Vec<Op>>(case.extra["script"].clone()).is_ok()
            && case.extra["schedule_seeds"].is_array()
            && !case.program.any(|g| matches!(g, G::Project(..) | G::Prim(..)))
            && match case.oracle.as_str() {
                "infinite-producer" => refint::is_infinite(&case.program),
                "consumer-vs-search" => true,
                "search" | "tree" | "fd" => !refint::is_infinite(&case.program),
                _ => false,
            }
            && (case.oracle != "fd" || gen_fd::brute_force(&case.program).is_some())
    }

    fn known_class(&self, case: &Case) -> Option<String> {
        if case.oracle == "fd" {
            crate::classes::fd_neq_class(&case.program).or_else(|| crate::classes::fd_order_class(&case.program))
        } else {
            None
        }
    }

    fn rule(&self) -> String {
        "case = program from the search / infinite-producer / tree-disequality / CLP(FD) generators x R iteration-order \
         schedules (reverse, rotate, keyed, stable, fresh policies; 6 quick, 16 thorough; no yields, because only the hash \
         order is allowed to change) x one consumer script over a single Query (re-runs, up to 3 interleaved iterators, drops, \
         polling after the end). Oracles: deterministic - the canonical answer sequence (prefix of 24 for never-ending \
         programs) is identical under every schedule, for every re-run and for interleaved vs solo iterators, up to renaming \
         of reified/hidden variables and order inside constraint sets; fused - no Some after a None, however often polled; \
         lazy - a program with a productive never-ending branch returns its first 24 answers within the step budget. \
         distinct = (program, schedule seeds, script); non-trivial = some schedule actually reordered an iteration of n >= 2 \
         or the script re-ran / interleaved / polled after the end, and at least one answer sequence was compared"
            .into()
    }

    fn run(&self, case: &Case) -> CaseResult {
        let mut facts = Facts::default();
        let p = &case.program;
        if case.oracle == "consumer-vs-search" {
            // the search (engine steps only) against the consumer (Solver::next)
            let mut cfg = case.cfg.clone();
            cfg.quanta_budget = 20_000;
            cfg.work_cap = 400_000;
            let (at, _end, stats) = crate::statedrv::raw_search(p, &cfg, 3);
            facts.stats.push(stats);
            if at.is_empty() {
                return CaseResult { verdict: Verdict::Inconclusive("the search yields no answer before it stalls".into()), facts };
            }
            let n = at.len();
            let need = *at.last().unwrap();
            let mut cfg2 = cfg.clone();
            cfg2.quanta_budget = need.saturating_mul(4) + 256;
            let run = run_program(p, &cfg2, n, false);
            facts.stats.push(run.stats.clone());
            facts.trace_hash = crate::rng::mix(&[run.stats.trace_hash, n as u64, need]);
            if let End::Panic(pi) = &run.end {
                return CaseResult {
                    verdict: Verdict::Violation { class: format!("panic@{}", pi.location), detail: pi.message.clone() },
                    facts,
                };
            }
            facts.answers_compared += run.answers.len() as u64;
            if run.answers.len() < n {
                return CaseResult {
                    verdict: Verdict::Violation {
                        class: "lazy-prefix-not-delivered".into(),
                        detail: format!(
                            "the search alone (engine steps) matures {} answer(s) within {} quanta, but the iterator delivered {} of them ({:?} after {} quanta, {} steps): the consumer stepped past what the answers needed",
                            n,
                            need,
                            run.answers.len(),
                            run.end,
                            run.stats.quanta,
                            run.stats.work
                        ),
                    },
                    facts,
                };
            }
            facts.nontrivial = true;
            *facts.faults.entry("stall").or_insert(0) += 1;
            return CaseResult { verdict: Verdict::Pass, facts };
        }
        let infinite = case.oracle == "infinite-producer";
        let take = if infinite { PREFIX } else { 100_000 };
        let base = run_program(p, &case.cfg, take, false);
        facts.stats.push(base.stats.clone());
        let panic_violation = |end: &End, facts: Facts| -> Option<CaseResult> {
            if let End::Panic(pi) = end {
                Some(CaseResult {
                    verdict: Verdict::Violation { class: format!("panic@{}", pi.location), detail: pi.message.clone() },
                    facts,
                })
            } else {
                None
            }
        };
        if let Some(v) = panic_violation(&base.end, facts.clone()) {
            return v;
        }
        if infinite {
            if base.answers.len() < PREFIX {
                if matches!(base.end, End::WorkCap) {
                    // the only committed-choice operators in these programs have heads that answer
                    // within a few steps: a quantum that eats the whole work budget is a search
                    // step (or a look-ahead inside one) that does not return
                    if base.stats.runaway_step || base.stats.quanta.saturating_mul(2_000) < base.stats.work {
                        return CaseResult {
                            verdict: Verdict::Violation {
                                class: "lazy-prefix-not-delivered".into(),
                                detail: format!(
                                    "asked for {} answers, got {}: {} engine steps were spent in only {} scheduling quanta (a step that does not return)",
                                    PREFIX,
                                    base.answers.len(),
                                    base.stats.work,
                                    base.stats.quanta
                                ),
                            },
                            facts,
                        };
                    }
                    return CaseResult { verdict: Verdict::Inconclusive("work cap".into()), facts };
                }
                return CaseResult {
                    verdict: Verdict::Violation {
                        class: "lazy-prefix-not-delivered".into(),
                        detail: format!(
                            "asked for {} answers of a program with a productive never-ending branch, got {} ({:?} after {} quanta)",
                            PREFIX,
                            base.answers.len(),
                            base.end,
                            base.stats.quanta
                        ),
                    },
                    facts,
                };
            }
        } else if base.end != End::Exhausted {
            return CaseResult { verdict: Verdict::Inconclusive("budget".into()), facts };
        }
        if infinite {
            facts.metrics.insert(
                "prefix_quanta_over_budget",
                base.stats.quanta as f64 / case.cfg.quanta_budget as f64,
            );
        }
        let reference = &base.answers;
        let mut trace = base.stats.trace_hash;
        let mut perturbed = false;
        // (c) the same program under other iteration orders
        let seeds: Vec<u64> = case.extra["schedule_seeds"]
            .as_array()
            .map(|a| a.iter().filter_map(|x| x.as_u64()).collect())
            .unwrap_or_default();
        for s in seeds.iter() {
            let mut r = Rng::new(mix(&[*s, 99]));
            let cfg = reorder_cfg(&mut r, case.cfg.quanta_budget);
            let run = run_program(p, &cfg, take, false);
            trace = mix(&[trace, run.stats.trace_hash]);
            if run.stats.reorders_fired > 0 {
                perturbed = true;
            }
            facts.stats.push(run.stats.clone());
            if let Some(v) = panic_violation(&run.end, facts.clone()) {
                return v;
            }
            if !infinite && run.end != End::Exhausted {
                return CaseResult { verdict: Verdict::Inconclusive("budget".into()), facts };
            }
            facts.answers_compared += run.answers.len() as u64;
            if let Some(i) = sequences_equivalent(reference, &run.answers) {
                return CaseResult {
                    verdict: Verdict::Violation {
                        class: "answer-sequence-depends-on-iteration-order".into(),
                        detail: format!(
                            "schedule {:?} seed {}: {} answers vs {} with insertion order; first difference at #{}: {} vs {}",
                            cfg.policy,
                            cfg.seed,
                            run.answers.len(),
                            reference.len(),
                            i,
                            run.answers.get(i).map(show_answer).unwrap_or("<none>".into()),
                            reference.get(i).map(show_answer).unwrap_or("<none>".into())
                        ),
                    },
                    facts,
                };
            }
        }
        // (b) + restart / interleave: one query, scripted consumer
        let script: Vec<Op> = serde_json::from_value(case.extra["script"].clone()).unwrap_or_default();
        let mut script_cfg = case.cfg.clone();
        if let Some(s) = seeds.first() {
            let mut r = Rng::new(mix(&[*s, 7]));
            script_cfg = reorder_cfg(&mut r, case.cfg.quanta_budget.saturating_mul(4));
        }
        let out = consumer::run_script(p, &script_cfg, &script);
        trace = mix(&[trace, out.stats.trace_hash, crate::rng::hash_str(&case.extra["script"].to_string())]);
        facts.stats.push(out.stats.clone());
        if let Some(v) = panic_violation(&out.end, facts.clone()) {
            return v;
        }
        if out.end != End::Limit {
            return CaseResult { verdict: Verdict::Inconclusive("budget (script)".into()), facts };
        }
        let news = script.iter().filter(|o| matches!(o, Op::New)).count();
        if news >= 2 {
            *facts.faults.entry("restart").or_insert(0) += 1;
            *facts.faults.entry("interleave").or_insert(0) += 1;
        }
        for (i, log) in out.iters.iter().enumerate() {
            if log.dropped {
                *facts.faults.entry("cancel").or_insert(0) += 1;
            }
            if log.polls_after_end > 0 {
                *facts.faults.entry("poll_after_end").or_insert(0) += 1;
            }
            if log.some_after_none {
                return CaseResult {
                    verdict: Verdict::Violation {
                        class: "iterator-not-fused".into(),
                        detail: format!("iterator #{} returned Some after None", i),
                    },
                    facts,
                };
            }
            let n = log.answers.len().min(reference.len());
            facts.answers_compared += n as u64;
            if log.answers.len() > reference.len() && !infinite {
                return CaseResult {
                    verdict: Verdict::Violation {
                        class: "rerun-sequence-differs".into(),
                        detail: format!("iterator #{} returned {} answers, a solo run {}", i, log.answers.len(), reference.len()),
                    },
                    facts,
                };
            }
            if let Some(k) = sequences_equivalent(&reference[..n], &log.answers[..n]) {
                return CaseResult {
                    verdict: Verdict::Violation {
                        class: "rerun-sequence-differs".into(),
                        detail: format!(
                            "iterator #{} of {} (same Query): answer #{} is {} but {} in a solo run",
                            i,
                            out.iters.len(),
                            k,
                            show_answer(&log.answers[k]),
                            show_answer(&reference[k])
                        ),
                    },
                    facts,
                };
            }
            if log.ended && !infinite && log.answers.len() != reference.len() {
                return CaseResult {
                    verdict: Verdict::Violation {
                        class: "rerun-sequence-differs".into(),
                        detail: format!(
                            "iterator #{} ended after {} answers, a solo run returns {}",
                            i,
                            log.answers.len(),
                            reference.len()
                        ),
                    },
                    facts,
                };
            }
            if log.ended && infinite {
                return CaseResult {
                    verdict: Verdict::Violation {
                        class: "rerun-sequence-differs".into(),
                        detail: format!("iterator #{} of a never-ending program returned None", i),
                    },
                    facts,
                };
            }
        }
        facts.trace_hash = trace;
        facts.nontrivial = perturbed || news >= 2 || out.iters.iter().any(|l| l.polls_after_end > 0);
        CaseResult { verdict: Verdict::Pass, facts }
    }
}
