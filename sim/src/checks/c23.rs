//! C23 — solving well-formed programs never panics: a monitor over the union of all generators
//! of this framework, each run under every perturbation and a consumer history.
use crate::consumer::{self, Op};
use crate::engine::End;
use crate::framework::*;
use crate::rng::mix;
use serde_json::json;

pub struct C23Check;
pub static C23: C23Check = C23Check;

fn sources() -> Vec<&'static dyn Check> {
    vec![
        &crate::checks::c02::C02,
        &crate::checks::c04::C04,
        &crate::checks::c05::C05,
        &crate::checks::c06::C06,
        &crate::checks::c07::C07,
        &crate::checks::c08::C08,
        &crate::checks::c09::C09,
        &crate::checks::c10::C10,
        &crate::checks::c11::C11,
        &crate::checks::c16::C16,
        &crate::checks::c19::C19,
        &crate::checks::c22::C22,
    ]
}

impl Check for C23Check {
    fn id(&self) -> &'static str {
        "C23"
    }

    fn cases(&self, tier: Tier) -> usize {
        match tier {
            Tier::Quick => 300_000,
            Tier::Thorough => 6_000_000,
        }
    }

    fn generate(&self, seed: u64, index: u64, tier: Tier) -> Case {
        let srcs = sources();
        let k = (index % srcs.len() as u64) as usize;
        let src = srcs[k];
        // an independent stream of cases of that generator (not the ones its own check looks at)
        let inner = src.generate(mix(&[seed, 0xC23]), index / srcs.len() as u64, tier);
        let mut st = streams(seed, "C23", index);
        let mut cfg = crate::gen_search::sim_cfg(&mut st.schedule, 30_000);
        cfg.work_cap = 600_000;
        let script = consumer::gen_script(&mut st.consumer, 3, 8);
        Case {
            property: "C23".into(),
            oracle: format!("generator-of-{}", src.id()),
            program: inner.program,
            cfg,
            extra: json!({"script": serde_json::to_value(&script).unwrap(), "source_oracle": inner.oracle}),
        }
    }

    fn valid(&self, case: &Case) -> bool {
        // a shrunk program must still be well-formed in the property's sense: scoping, arities and
        // operand kinds (program_ok) and a domain for every finite-domain operand (fd_wellformed)
        serde_json::from_value::<Vec<Op>>(case.extra["script"].clone()).is_ok()
            && crate::valid::program_ok(&case.program)
            && crate::valid::fd_wellformed(&case.program)
            && sources().iter().any(|c| format!("generator-of-{}", c.id()) == case.oracle)
    }

    fn rule(&self) -> String {
        "case = a program from any generator of this framework (tree/disequality, reordering, dfs, search with leaves, \
         fairness trees with producers and divergers, committed choice, deterministic-iteration mix, branch-isolation, \
         project, CLP(FD), CLP(Z), user-hook programs; all well-formed by construction: documented operand kinds, every FD \
         operand given a domain, small integers) x (iteration-order policy, yields) x a consumer history over one Query \
         (re-runs, interleaved iterators, drops, polling after the end) under a step budget. Oracle: no unwind other than \
         the simulator's own budget signal; a panic is reported with its message and location as its class. distinct = \
         (program, script, decision trace); non-trivial = the run executed at least one engine step or returned an answer"
            .into()
    }

    fn run(&self, case: &Case) -> CaseResult {
        let mut facts = Facts::default();
        let script: Vec<Op> = serde_json::from_value(case.extra["script"].clone()).unwrap_or_default();
        let out = consumer::run_script(&case.program, &case.cfg, &script);
        facts.trace_hash = mix(&[out.stats.trace_hash, crate::rng::hash_str(&case.extra["script"].to_string())]);
        facts.stats.push(out.stats.clone());
        let answers: usize = out.iters.iter().map(|i| i.answers.len()).sum();
        facts.answers_compared += answers as u64;
        if script.iter().filter(|o| matches!(o, Op::New)).count() >= 2 {
            *facts.faults.entry("restart").or_insert(0) += 1;
        }
        if out.iters.iter().any(|i| i.dropped) {
            *facts.faults.entry("cancel").or_insert(0) += 1;
        }
        if out.iters.iter().any(|i| i.polls_after_end > 0) {
            *facts.faults.entry("poll_after_end").or_insert(0) += 1;
        }
        match &out.end {
            End::Panic(pi) => CaseResult {
                verdict: Verdict::Violation { class: format!("panic@{}", pi.location), detail: pi.message.clone() },
                facts,
            },
            End::Budget | End::WorkCap => {
                *facts.faults.entry("timeout").or_insert(0) += 1;
                facts.nontrivial = true;
                CaseResult { verdict: Verdict::Pass, facts }
            }
            _ => {
                facts.nontrivial = out.stats.work > 0 || answers > 0;
                CaseResult { verdict: Verdict::Pass, facts }
            }
        }
    }
}
