//! C22 — user extension hooks observe a consistent constraint lifecycle.
use crate::ast::*;
use crate::checks::c02::pure_tree;
use crate::checks::c16::{fd_only, fd_opts_for};
use crate::engine::{run_program, End};
use crate::framework::*;
use crate::gen_fd;
use crate::gen_search;
use crate::gen_tree::{self, TreeOpts};
use crate::refint::{self, R1};
use crate::rng::Rng;
use crate::valid;
use serde_json::json;

pub struct C22Check;
pub static C22: C22Check = C22Check;

/// Insert probes between goals and tags at the head of every conde clause.
fn instrument(gs: &[G], r: &mut Rng, next_tag: &mut u32) -> Vec<G> {
    let mut out = vec![];
    for g in gs {
        let g2 = match g {
            G::Fresh(vs, inner) => G::Fresh(vs.clone(), instrument(inner, r, next_tag)),
            G::Conj(inner) => G::Conj(instrument(inner, r, next_tag)),
            G::Conde(cs) => G::Conde(
                cs.iter()
                    .map(|c| {
                        let tag = *next_tag;
                        *next_tag += 1;
                        let mut c2 = vec![G::UserTag(tag)];
                        c2.extend(instrument(c, r, next_tag));
                        c2
                    })
                    .collect(),
            ),
            other => other.clone(),
        };
        out.push(g2);
        if r.chance(1, 2) {
            out.push(G::Probe(0));
        }
        if r.chance(1, 8) {
            let tag = *next_tag;
            *next_tag += 1;
            out.push(G::UserTag(tag));
        }
    }
    out
}

fn strip(p: &Program) -> Program {
    fn s(gs: &[G]) -> Vec<G> {
        gs.iter()
            .filter(|g| !matches!(g, G::Probe(_) | G::UserTag(_) | G::Observe(_)))
            .map(|g| match g {
                G::Fresh(vs, inner) => G::Fresh(vs.clone(), s(inner)),
                G::Conj(inner) => G::Conj(s(inner)),
                G::Conde(cs) => G::Conde(cs.iter().map(|c| s(c)).collect()),
                other => other.clone(),
            })
            .collect()
    }
    Program { nq: p.nq, defs: p.defs.clone(), body: s(&p.body) }
}

/// Every tag path a branch can log, from the syntax alone.
fn syntactic_paths(gs: &[G]) -> Vec<Vec<u32>> {
    let mut paths: Vec<Vec<u32>> = vec![vec![]];
    for g in gs {
        let alts: Vec<Vec<u32>> = match g {
            G::UserTag(t) => vec![vec![*t]],
            G::Fresh(_, inner) | G::Conj(inner) => syntactic_paths(inner),
            G::Conde(cs) => cs.iter().flat_map(|c| syntactic_paths(c)).collect(),
            _ => vec![vec![]],
        };
        let mut next = vec![];
        for p in paths.iter() {
            for a in alts.iter() {
                let mut q = p.clone();
                q.extend(a.iter().cloned());
                next.push(q);
            }
        }
        paths = next;
        if paths.len() > 4096 {
            break;
        }
    }
    paths
}

impl Check for C22Check {
    fn id(&self) -> &'static str {
        "C22"
    }

    fn cases(&self, tier: Tier) -> usize {
        match tier {
            Tier::Quick => 400_000,
            Tier::Thorough => 8_000_000,
        }
    }

    fn generate(&self, seed: u64, index: u64, tier: Tier) -> Case {
        let mut st = streams(seed, "C22", index);
        let fd = st.workload.chance(1, 3);
        let base = if fd {
            let o = fd_opts_for(tier, &mut st.workload);
            gen_fd::gen_program(&mut st.workload, &o)
        } else {
            let mut o = TreeOpts::small();
            o.neq_bias = 6;
            gen_tree::gen_program(&mut st.workload, &o)
        };
        let mut next_tag = 1;
        let mut body = instrument(&base.body, &mut st.consumer, &mut next_tag);
        body.push(G::Observe(0));
        let program = Program { nq: base.nq, defs: vec![], body };
        let cfg = gen_search::sim_cfg(&mut st.schedule, 200_000);
        Case {
            property: "C22".into(),
            oracle: if fd { "hooks-fd" } else { "hooks-tree" }.into(),
            program,
            cfg,
            extra: json!({"dfs": st.consumer.chance(1, 8)}),
        }
    }

    fn valid(&self, case: &Case) -> bool {
        let stripped = strip(&case.program);
        valid::program_ok(&case.program)
            && matches!(case.program.body.last(), Some(G::Observe(_)))
            && match case.oracle.as_str() {
                "hooks-tree" => pure_tree(&stripped),
                "hooks-fd" => fd_only(&stripped) && gen_fd::brute_force(&stripped).is_some(),
                _ => false,
            }
    }

    fn rule(&self) -> String {
        "case = eq/diseq/conde/fresh program or CLP(FD) program run with an instrumented User type (counts with_constraint and \
         take_constraint calls, checks every process_extension argument against the substitution, carries a per-branch tag \
         log) with probe goals between the goals, a tag at the head of every conde clause and an observer as last goal (one case in eight as the body of a dfs block), x \
         (constraint-store iteration order, yields). Oracle: at every probe and at the observer, in whatever state reaches \
         it, with_calls - take_calls = number of stored constraints and every extension binding is in the substitution; \
         tree programs: the multiset of (answer, tag log, process_extension call count) at the observer equals the reference \
         interpreter's (own root-to-answer path, one call per successful == plus the query's own); FD programs: every tag log \
         is a syntactic root-to-leaf path. distinct = (program, decision trace); non-trivial = at least one probe ran in a \
         state with a constraint history"
            .into()
    }

    fn run(&self, case: &Case) -> CaseResult {
        let mut facts = Facts::default();
        let p = &case.program;
        let run = run_program(&exec_program(case), &case.cfg, 100_000, false);
        facts.trace_hash = run.stats.trace_hash;
        facts.stats.push(run.stats.clone());
        match &run.end {
            End::Exhausted => {}
            End::Panic(pi) => {
                return CaseResult {
                    verdict: Verdict::Violation { class: format!("panic@{}", pi.location), detail: pi.message.clone() },
                    facts,
                }
            }
            _ => return CaseResult { verdict: Verdict::Inconclusive("budget".into()), facts },
        }
        facts.answers_compared += run.probes_run + run.observed.len() as u64;
        if let Some(v) = run.probe_log.first() {
            let class = if v.contains("with_constraint") { "hook-count-mismatch" } else { "extension-mismatch" };
            return CaseResult {
                verdict: Verdict::Violation { class: class.into(), detail: format!("at a probe: {}", v) },
                facts,
            };
        }
        for snap in run.observed_user.iter() {
            if snap.with_calls as i64 - snap.take_calls as i64 != snap.stored as i64 {
                return CaseResult {
                    verdict: Verdict::Violation {
                        class: "hook-count-mismatch".into(),
                        detail: format!(
                            "at the observer: with_constraint calls {} - take_constraint calls {} != {} stored constraints",
                            snap.with_calls, snap.take_calls, snap.stored
                        ),
                    },
                    facts,
                };
            }
        }
        // the answer states themselves (after the reification goal rebuilt the store), read by
        // driving the Solver directly
        let st = crate::statedrv::run_states(p, &case.cfg, 100_000, None);
        facts.stats.push(st.stats.clone());
        if let End::Panic(pi) = &st.end {
            return CaseResult {
                verdict: Verdict::Violation { class: format!("panic@{}", pi.location), detail: pi.message.clone() },
                facts,
            };
        }
        for snap in st.snaps.iter() {
            facts.answers_compared += 1;
            if snap.with_calls as i64 - snap.take_calls as i64 != snap.stored as i64 {
                return CaseResult {
                    verdict: Verdict::Violation {
                        class: "hook-count-mismatch".into(),
                        detail: format!(
                            "in an answer state (after reification): with_constraint calls {} - take_constraint calls {} != {} stored constraints",
                            snap.with_calls, snap.take_calls, snap.stored
                        ),
                    },
                    facts,
                };
            }
        }
        if case.oracle == "hooks-tree" {
            let r1 = R1::new(p, refint::Opts { fuel: 30_000, ..Default::default() }).run();
            if r1.cut {
                return CaseResult { verdict: Verdict::Inconclusive("reference out of fuel".into()), facts };
            }
            // one process_extension call per successful == plus the query's own; the reported
            // bindings are folded into the count (x1000) so that one tuple compares both
            let mut expect: Vec<(T, Vec<u32>, u32)> = r1
                .answers
                .iter()
                .map(|a| (a.term.clone(), a.path.clone(), (a.eqs + 1) * 1000 + a.eq_bindings + 1))
                .collect();
            expect.sort();
            let mut got: Vec<(T, Vec<u32>, u32)> = run
                .observed
                .iter()
                .zip(run.observed_user.iter())
                .map(|((_, t), s)| (t.clone(), s.path.clone(), s.ext_calls * 1000 + s.ext_bindings))
                .collect();
            got.sort();
            if got != expect {
                let same_terms = got.iter().map(|g| &g.0).collect::<Vec<_>>() == expect.iter().map(|g| &g.0).collect::<Vec<_>>();
                let same_paths = same_terms
                    && got.iter().map(|g| &g.1).collect::<Vec<_>>() == expect.iter().map(|g| &g.1).collect::<Vec<_>>();
                let class = if !same_terms {
                    "observer-answers-differ"
                } else if !same_paths {
                    "user-path-log-differs"
                } else {
                    "process-extension-call-count-differs"
                };
                return CaseResult {
                    verdict: Verdict::Violation {
                        class: class.into(),
                        detail: format!(
                            "engine (answer, tag log, process_extension calls) {:?} vs reference {:?}",
                            got.iter().map(|(t, p, e)| (t.show(), p.clone(), *e)).collect::<Vec<_>>(),
                            expect.iter().map(|(t, p, e)| (t.show(), p.clone(), *e)).collect::<Vec<_>>()
                        ),
                    },
                    facts,
                };
            }
        } else {
            let allowed = syntactic_paths(&p.body);
            for snap in run.observed_user.iter() {
                if !allowed.contains(&snap.path) {
                    return CaseResult {
                        verdict: Verdict::Violation {
                            class: "user-path-log-differs".into(),
                            detail: format!("tag log {:?} is not a root-to-leaf path of the program", snap.path),
                        },
                        facts,
                    };
                }
            }
        }
        facts.nontrivial = run.probes_run > 0
            && p.any(|g| {
                matches!(
                    g,
                    G::Neq(..)
                        | G::Ltefd(..)
                        | G::Ltfd(..)
                        | G::Plusfd(..)
                        | G::Minusfd(..)
                        | G::Timesfd(..)
                        | G::Diseqfd(..)
                        | G::Distinctfd(..)
                )
            });
        CaseResult { verdict: Verdict::Pass, facts }
    }
}
