//! C15 — fresh variables are distinct and renaming-invariant (scope-limited, see DESIGN.md):
//!  * generated programs: recursive relations whose unfoldings introduce fresh variables, several
//!    invocations of one relation alive at once, closures; compared with the reference
//!    interpreter (which allocates new variables per unfolding) under every schedule and under
//!    interleaved iterators of one Query;
//!  * a fixed corpus of macro-written relations (shadowing, same names in sibling scopes and
//!    pattern arms, repeated pattern variables, recursion through closures) with renamed twins;
//!  * threads: see /verif/threads (shuttle), run by the same `./check C15`.
use crate::ast::*;
use crate::builder::{row_of_state, wrap_query_goal};
use crate::checks::c06::{fault_facts, show_terms};
use crate::consumer::{self, Op};
use crate::corpus;
use crate::driver::Handle;
use crate::engine::{canon_row, classify_unwind_pub, End};
use crate::framework::*;
use crate::gen_search::{self, Gen, Opts};
use crate::refint::{self, R1};
use crate::simuser::*;
use crate::valid;
use proto_vulcan::lterm::LTerm;
use serde_json::json;

pub struct C15Check;
pub static C15: C15Check = C15Check;

fn run_goal(build: fn(PTerm) -> PGoal, cfg: &crate::driver::SimCfg) -> (Result<Vec<T>, End>, crate::driver::Stats) {
    let handle = Handle::install(cfg, false);
    let h2 = handle.clone();
    let res = std::panic::catch_unwind(std::panic::AssertUnwindSafe(|| {
        let q: PTerm = LTerm::var("q");
        let goal = wrap_query_goal(&[q.clone()], vec![build(q.clone())]);
        let mut solver = PSolver::new((), false);
        let mut stream = solver.start(&goal, PState::new(SimUser::default()));
        let mut out = vec![];
        while let Some(state) = solver.next(&mut stream) {
            h2.set_armed(false);
            let a = canon_row(&row_of_state(&state, &[q.clone()]));
            h2.set_armed(true);
            // the answer term is the one-element list of the query variable
            match a.term {
                T::Cons(h, _) => out.push(*h),
                other => out.push(other),
            }
        }
        out
    }));
    let stats = handle.finish();
    match res {
        Ok(v) => (Ok(v), stats),
        Err(p) => (Err(classify_unwind_pub(p)), stats),
    }
}

impl Check for C15Check {
    fn id(&self) -> &'static str {
        "C15"
    }

    fn cases(&self, tier: Tier) -> usize {
        match tier {
            Tier::Quick => 200_000,
            Tier::Thorough => 4_000_000,
        }
    }

    fn generate(&self, seed: u64, index: u64, _tier: Tier) -> Case {
        let mut st = streams(seed, "C15", index);
        let ncorpus = corpus::corpus().len() as u64;
        if index % 8 == 0 {
            let k = (index / 8) % ncorpus;
            let cfg = gen_search::sim_cfg(&mut st.schedule, 100_000);
            return Case {
                property: "C15".into(),
                oracle: "macro-corpus".into(),
                program: Program { nq: 1, defs: vec![], body: vec![] },
                cfg,
                extra: json!({"entry": k}),
            };
        }
        let mut o = Opts::finite_small();
        o.for_loops = false;
        o.dfs_blocks = true;
        let program = {
            let mut g = Gen::new(&mut st.workload, &mut st.leaves, o);
            let mut p = g.program(false);
            // make sure there are recursive relations with fresh variables per unfolding, invoked
            // several times in one conjunction
            g.fresh_var();
            while p.defs.len() < 2 {
                let d = g.def();
                p.defs.push(d);
            }
            let scope: Vec<VarIx> = (0..p.nq).collect();
            let calls = 2 + g.w.below(2);
            for _ in 0..calls {
                let ix = g.w.below(p.defs.len()) as u32;
                let x = g.var_or_atom(&scope);
                let l = g.proper_list(&scope, 3);
                let call = G::CallDef(ix, vec![x, l]);
                let wrapped = match g.w.below(4) {
                    0 => G::Closure(vec![call]),
                    1 => G::Conde(vec![vec![call.clone()], vec![call]]),
                    _ => call,
                };
                let at = g.w.below(p.body.len() + 1);
                if g.w.chance(1, 4) {
                    // the same goal twice in a row: the builder uses one goal object for both
                    // invocations, which must still get their own fresh variables
                    p.body.insert(at, wrapped.clone());
                }
                p.body.insert(at, wrapped);
            }
            if g.w.chance(1, 4) {
                // a closure whose body picks a value for a fresh variable, used twice through
                // the same goal object: the two picks are independent
                let v = g.fresh_var();
                let items = g.proper_list(&scope, 3);
                let pick = G::Closure(vec![G::Fresh(vec![v], vec![G::Call(Rel::Member, vec![T::V(v), items])])]);
                let at = g.w.below(p.body.len() + 1);
                p.body.insert(at, pick.clone());
                p.body.insert(at, pick);
            }
            if g.w.chance(1, 4) {
                // a `for` over a collection with equal elements whose body picks a value for a
                // fresh variable: every iteration has its own variable, the picks are independent
                let x = g.fresh_var();
                let v = g.fresh_var();
                let e = g.var_or_atom(&scope);
                let mut coll = vec![e.clone(), e.clone()];
                if g.w.chance(1, 3) {
                    coll.push(g.var_or_atom(&scope));
                }
                if g.w.chance(1, 3) {
                    coll.push(e);
                }
                let items = g.proper_list(&scope, 3);
                let mut body = vec![G::Call(Rel::Member, vec![T::V(v), items])];
                if g.w.chance(1, 2) {
                    body.push(G::Neq(T::V(v), T::V(x)));
                }
                let at = g.w.below(p.body.len() + 1);
                p.body.insert(at, G::For(x, coll, vec![G::Fresh(vec![v], body)]));
            }
            p
        };
        let cfg = gen_search::sim_cfg(&mut st.schedule, 200_000);
        let script = consumer::gen_script(&mut st.consumer, 3, 40);
        Case {
            property: "C15".into(),
            oracle: "unfoldings".into(),
            program,
            cfg,
            extra: json!({"script": serde_json::to_value(&script).unwrap()}),
        }
    }

    fn valid(&self, case: &Case) -> bool {
        match case.oracle.as_str() {
            "macro-corpus" => case.extra["entry"].as_u64().map(|k| (k as usize) < corpus::corpus().len()).unwrap_or(false),
            "unfoldings" => {
                valid::program_ok(&case.program)
                    && !refint::is_infinite(&case.program)
                    && serde_json::from_value::<Vec<Op>>(case.extra["script"].clone()).is_ok()
                    && !case.program.any(|g| {
                        matches!(
                            g,
                            G::Neq(..)
                                | G::Conda(_)
                                | G::Condu(_)
                                | G::Onceo(_)
                                | G::Project(..)
                                | G::Prim(..)
                                | G::Dom(..)
                                | G::DomRange(..)
                                | G::Plusfd(..)
                                | G::Plusz(..)
                                | G::Timesz(..)
                        )
                    })
            }
            _ => false,
        }
    }

    fn rule(&self) -> String {
        "case = (a) a generated search program with two program-defined recursive relations whose step clauses introduce fresh \
         variables, invoked 2-4 times in one conjunction (directly, through closures, in both clauses of a conde), in a quarter of the \
         programs also a `for` over a collection with equal elements whose body picks a value for a fresh variable (one \
         variable per iteration), x schedule \
         (leaf timing, yields, reorders) x consumer script over one Query (re-runs, up to three interleaved iterators, \
         drops): every exhausted iterator returns the reference interpreter's multiset (new variables per unfolding), a \
         partial one a sub-multiset; or (b) one of 13 macro-written corpus relations (shadowing, sibling scopes, one closure goal object solved twice, an enclosing variable used in an arm whose sibling binds the same name, pattern arms \
         reusing names, repeated pattern variables, recursion through proto_vulcan_closure!, two live invocations) under a \
         seeded schedule: its answers equal the hand-listed expectation and its hand-renamed twin's answers. Not covered: \
         generated surface syntax (compile-time). Threads: shuttle harness in /verif/threads, reported in the same evidence \
         file. distinct = (program or corpus entry, script, decision trace); non-trivial = a recursive relation was unfolded \
         at least twice or the query ran more than once, and at least one answer was compared"
            .into()
    }

    fn run(&self, case: &Case) -> CaseResult {
        let mut facts = Facts::default();
        if case.oracle == "macro-corpus" {
            let k = case.extra["entry"].as_u64().unwrap_or(0) as usize;
            let all = corpus::corpus();
            let e = &all[k % all.len()];
            let mut expected = (e.expected)();
            expected.sort();
            let mut variants: Vec<(&str, fn(PTerm) -> PGoal)> = vec![("as written", e.build)];
            if let Some(t) = e.twin {
                variants.push(("renamed twin", t));
            }
            for (name, build) in variants {
                let (res, stats) = run_goal(build, &case.cfg);
                facts.trace_hash = crate::rng::mix(&[facts.trace_hash, stats.trace_hash, k as u64]);
                facts.stats.push(stats);
                match res {
                    Ok(mut got) => {
                        got.sort();
                        facts.answers_compared += got.len() as u64;
                        if got != expected {
                            return CaseResult {
                                verdict: Verdict::Violation {
                                    class: "macro-corpus-answers-differ".into(),
                                    detail: format!(
                                        "corpus relation `{}` ({}): {:?}, expected {:?}",
                                        e.name,
                                        name,
                                        show_terms(&got),
                                        show_terms(&expected)
                                    ),
                                },
                                facts,
                            };
                        }
                    }
                    Err(End::Panic(pi)) => {
                        return CaseResult {
                            verdict: Verdict::Violation {
                                class: format!("panic@{}", pi.location),
                                detail: format!("corpus relation `{}`: {}", e.name, pi.message),
                            },
                            facts,
                        }
                    }
                    Err(_) => return CaseResult { verdict: Verdict::Inconclusive("budget".into()), facts },
                }
            }
            facts.nontrivial = true;
            return CaseResult { verdict: Verdict::Pass, facts };
        }
        fault_facts(&case.program, &mut facts);
        let p = &case.program;
        let script: Vec<Op> = serde_json::from_value(case.extra["script"].clone()).unwrap_or_default();
        let r1 = R1::new(p, refint::Opts { fuel: 40_000, ..Default::default() }).run();
        if r1.cut {
            return CaseResult { verdict: Verdict::Inconclusive("reference out of fuel".into()), facts };
        }
        let mut expect: Vec<T> = r1.answers.iter().map(|a| a.term.clone()).collect();
        expect.sort();
        let out = consumer::run_script(p, &case.cfg, &script);
        facts.trace_hash = crate::rng::mix(&[out.stats.trace_hash, crate::rng::hash_str(&case.extra["script"].to_string())]);
        facts.stats.push(out.stats.clone());
        match &out.end {
            End::Limit => {}
            End::Panic(pi) => {
                return CaseResult {
                    verdict: Verdict::Violation { class: format!("panic@{}", pi.location), detail: pi.message.clone() },
                    facts,
                }
            }
            _ => return CaseResult { verdict: Verdict::Inconclusive("budget".into()), facts },
        }
        let news = script.iter().filter(|o| matches!(o, Op::New)).count();
        if news >= 2 {
            *facts.faults.entry("interleave").or_insert(0) += 1;
        }
        for (i, log) in out.iters.iter().enumerate() {
            let mut got: Vec<T> = log.answers.iter().map(|a| a.term.clone()).collect();
            got.sort();
            facts.answers_compared += got.len() as u64;
            let full = log.ended && !log.dropped;
            let ok = if full {
                got == expect
            } else {
                let mut rest = expect.clone();
                got.iter().all(|g| match rest.iter().position(|e| e == g) {
                    Some(k) => {
                        rest.remove(k);
                        true
                    }
                    None => false,
                })
            };
            if !ok {
                return CaseResult {
                    verdict: Verdict::Violation {
                        class: "unfolding-answers-differ".into(),
                        detail: format!(
                            "iterator #{} of {} ({}): engine {:?} vs reference {:?}",
                            i,
                            out.iters.len(),
                            if full { "exhausted" } else { "partial" },
                            show_terms(&got),
                            show_terms(&expect)
                        ),
                    },
                    facts,
                };
            }
        }
        facts.nontrivial = !expect.is_empty() || news >= 2;
        CaseResult { verdict: Verdict::Pass, facts }
    }
}
