//! C06 — interleaving search loses no answers and invents none.
use crate::ast::*;
use crate::engine::{run_program, End};
use crate::framework::*;
use crate::gen_search::{self, Gen, Opts};
use crate::refint::{self, R1};
use crate::valid;
use serde_json::json;

pub struct C06Check;
pub static C06: C06Check = C06Check;

fn wrap_dfs(p: &Program) -> Program {
    Program {
        nq: p.nq,
        defs: p.defs.clone(),
        body: vec![G::Dfs(p.body.clone())],
    }
}

pub fn fault_facts(p: &Program, facts: &mut Facts) {
    fn visit(g: &G, facts: &mut Facts) {
        if let G::Leaf(l) = g {
            if l.answers.iter().any(|a| a.latency > 0) || l.end_latency > 0 {
                *facts.faults.entry("latency").or_insert(0) += 1;
            }
            if l.answers.len() >= 2 && l.answers.iter().all(|a| a.latency == 0) {
                *facts.faults.entry("burst").or_insert(0) += 1;
            }
            for (i, a) in l.answers.iter().enumerate() {
                if l.answers[..i].iter().any(|b| b.value == a.value) {
                    *facts.faults.entry("dup").or_insert(0) += 1;
                    break;
                }
            }
            match l.tail {
                Tail::Stall => *facts.faults.entry("stall").or_insert(0) += 1,
                Tail::Flood => *facts.faults.entry("flood").or_insert(0) += 1,
                Tail::End => {}
            }
        }
        for c in g.children() {
            visit(c, facts);
        }
    }
    for g in p.body.iter() {
        visit(g, facts);
    }
    for d in p.defs.iter() {
        for g in d.body.iter() {
            visit(g, facts);
        }
    }
}

impl Check for C06Check {
    fn id(&self) -> &'static str {
        "C06"
    }

    fn cases(&self, tier: Tier) -> usize {
        match tier {
            Tier::Quick => 60_000,
            Tier::Thorough => 1_500_000,
        }
    }

    fn generate(&self, seed: u64, index: u64, tier: Tier) -> Case {
        if let Some(c) = crate::surface::case_for("C06", seed, index) {
            return c;
        }
        let mut st = streams(seed, "C06", index);
        let infinite = st.workload.chance(1, 5);
        let mut o = Opts::finite_small();
        o.infinite = infinite;
        // disequalities in a third of the cases; answers are then compared by their terms only
        // (what the attached constraints mean is C02's business)
        o.neq = st.workload.chance(1, 3);
        if tier == Tier::Thorough && st.workload.chance(1, 3) {
            o.max_depth = 4;
            o.max_width = 4;
        }
        let program = {
            let mut g = Gen::new(&mut st.workload, &mut st.leaves, o);
            let mut p = g.program(false);
            if infinite && !refint::is_infinite(&p) {
                // make sure the infinite configuration has an infinite producer
                let scope: Vec<VarIx> = (0..p.nq).collect();
                let inner = g.goal(&scope, 1, false);
                p.body.push(G::Anyo(vec![inner]));
            }
            p
        };
        let mut cfg = gen_search::sim_cfg(&mut st.schedule, 200_000);
        let oracle = if refint::is_infinite(&program) { "prefix-soundness" } else { "finite-multiset" };
        if oracle == "prefix-soundness" {
            // a starved or unproductive prefix is C07's business: do not burn the clock on it
            cfg.quanta_budget = 4_000;
            cfg.work_cap = 120_000;
        }
        Case {
            property: "C06".into(),
            oracle: oracle.into(),
            program,
            cfg,
            extra: json!({"prefix": 1 + st.consumer.below(24)}),
        }
    }

    fn valid(&self, case: &Case) -> bool {
        if crate::surface::is_surface(case) {
            return crate::surface::valid(case);
        }
        valid::program_ok(&case.program)
            && !case.program.any(|g| {
                matches!(
                    g,
                    G::Conda(_)
                        | G::Condu(_)
                        | G::Onceo(_)
                        | G::Project(..)
                        | G::Prim(..)
                        | G::Dom(..)
                        | G::DomRange(..)
                        | G::Ltefd(..)
                        | G::Ltfd(..)
                        | G::Plusfd(..)
                        | G::Minusfd(..)
                        | G::Timesfd(..)
                        | G::Diseqfd(..)
                        | G::Distinctfd(..)
                        | G::Plusz(..)
                        | G::Timesz(..)
                )
            })
            && (case.oracle == "prefix-soundness") == refint::is_infinite(&case.program)
    }

    fn rule(&self) -> String {
        "Every 64th case is one of the macro-written surface programs for this property (sim/src/surface.rs: literal true/false clauses in nested conde, fall-through clauses, match arms, bracketed conjunctions) compared as a multiset with a hand-listed expectation, under the same schedules. case = (search program over ==, fresh, conj, conde/disj, closure, for, member/append/cons, \
         program-defined recursive relations, simulated leaves) x (iteration-order policy, yield sites/rate) ; \
         finite trees: answer multiset of the interleaving run = reference interpreter R1 = same program under dfs{}; \
         infinite programs: every answer of a bounded prefix is an answer per R1. \
         distinct = distinct (program hash, decision-trace hash, extra); non-trivial = a leaf latency/burst/dup, a yield or a \
         non-identity reorder fired, or the tree has a disjunction, and at least one answer was compared or an empty result verified"
            .into()
    }

    fn run(&self, case: &Case) -> CaseResult {
        if crate::surface::is_surface(case) {
            return crate::surface::run_case(case);
        }
        let mut facts = Facts::default();
        fault_facts(&case.program, &mut facts);
        let p = &case.program;
        if case.oracle == "finite-multiset" {
            let r1 = R1::new(p, refint::Opts { fuel: 30_000, ..Default::default() }).run();
            if r1.cut || r1.unfolded {
                return CaseResult { verdict: Verdict::Inconclusive("reference out of fuel".into()), facts };
            }
            let mut expect: Vec<T> = r1.answers.iter().map(|a| a.term.clone()).collect();
            expect.sort();
            // step budget proportional to the size of the tree (see framework::finite_budget)
            let mut cfg = case.cfg.clone();
            cfg.quanta_budget = finite_budget(r1.steps, r1.answers.len());
            cfg.work_cap = cfg.quanta_budget.saturating_mul(64);
            let bfs = run_program(p, &cfg, usize::MAX, false);
            if bfs.end == End::Exhausted {
                facts.metrics.insert("quanta_needed_over_budget", bfs.stats.quanta as f64 / cfg.quanta_budget as f64);
            }
            facts.trace_hash = bfs.stats.trace_hash;
            let perturbed = bfs.stats.reorders_fired > 0 || bfs.stats.yields_fired > 0;
            let has_disj = p.any(|g| matches!(g, G::Conde(_) | G::Disj(..) | G::Leaf(_) | G::Call(..) | G::CallDef(..)));
            facts.stats.push(bfs.stats.clone());
            match &bfs.end {
                End::Exhausted => {}
                End::WorkCap => {
                    return CaseResult { verdict: Verdict::Inconclusive("work cap".into()), facts }
                }
                End::Budget => {
                    return CaseResult {
                        verdict: Verdict::Violation {
                            class: "finite-tree-did-not-terminate".into(),
                            detail: format!(
                                "finite search tree (reference: {} answers) still running after {} quanta",
                                expect.len(),
                                bfs.stats.quanta
                            ),
                        },
                        facts,
                    }
                }
                End::Panic(pi) => {
                    return CaseResult {
                        verdict: Verdict::Violation {
                            class: format!("panic@{}", pi.location),
                            detail: pi.message.clone(),
                        },
                        facts,
                    }
                }
                End::Limit => unreachable!(),
            }
            let mut got: Vec<T> = bfs.answers.iter().map(|a| a.term.clone()).collect();
            got.sort();
            facts.answers_compared += got.len() as u64;
            if got != expect {
                return CaseResult {
                    verdict: Verdict::Violation {
                        class: "interleaving-multiset-differs-from-reference".into(),
                        detail: format!("engine {:?} vs reference {:?}", show_terms(&got), show_terms(&expect)),
                    },
                    facts,
                };
            }
            // same program under dfs { }
            let dfs_p = wrap_dfs(p);
            let dfs = run_program(&dfs_p, &cfg, usize::MAX, false);
            facts.stats.push(dfs.stats.clone());
            match &dfs.end {
                End::Exhausted => {}
                End::WorkCap => {
                    return CaseResult { verdict: Verdict::Inconclusive("work cap (dfs)".into()), facts }
                }
                End::Panic(pi) => {
                    return CaseResult {
                        verdict: Verdict::Violation {
                            class: format!("panic@{}", pi.location),
                            detail: format!("under dfs: {}", pi.message),
                        },
                        facts,
                    }
                }
                _ => {
                    return CaseResult {
                        verdict: Verdict::Violation {
                            class: "finite-tree-did-not-terminate".into(),
                            detail: "under dfs{}".into(),
                        },
                        facts,
                    }
                }
            }
            let mut got_dfs: Vec<T> = dfs.answers.iter().map(|a| a.term.clone()).collect();
            got_dfs.sort();
            facts.answers_compared += got_dfs.len() as u64;
            if got_dfs != got {
                return CaseResult {
                    verdict: Verdict::Violation {
                        class: "interleaving-multiset-differs-from-dfs".into(),
                        detail: format!("bfs {:?} vs dfs {:?}", show_terms(&got), show_terms(&got_dfs)),
                    },
                    facts,
                };
            }
            facts.nontrivial = has_disj || perturbed || !facts.faults.is_empty();
            CaseResult { verdict: Verdict::Pass, facts }
        } else {
            let prefix = case.extra["prefix"].as_u64().unwrap_or(8) as usize;
            let run = run_program(p, &case.cfg, prefix, false);
            facts.trace_hash = run.stats.trace_hash;
            facts.stats.push(run.stats.clone());
            if let End::Panic(pi) = &run.end {
                return CaseResult {
                    verdict: Verdict::Violation {
                        class: format!("panic@{}", pi.location),
                        detail: pi.message.clone(),
                    },
                    facts,
                };
            }
            if matches!(run.end, End::Budget | End::WorkCap) {
                *facts.faults.entry("timeout").or_insert(0) += 1;
            }
            if run.answers.is_empty() {
                // nothing to compare; a starved prefix is C07's business
                return CaseResult { verdict: Verdict::Inconclusive("no answer in the prefix".into()), facts };
            }
            // membership of every distinct answer
            let mut distinct: Vec<&T> = run.answers.iter().map(|a| &a.term).collect();
            distinct.sort();
            distinct.dedup();
            let mut undecided = false;
            for ans in distinct {
                match member_of(p, ans) {
                    Some(true) => facts.answers_compared += 1,
                    Some(false) => {
                        return CaseResult {
                            verdict: Verdict::Violation {
                                class: "invented-answer".into(),
                                detail: format!("engine answer {} is not an answer per the reference", ans.show()),
                            },
                            facts,
                        }
                    }
                    None => undecided = true,
                }
            }
            if undecided && facts.answers_compared == 0 {
                return CaseResult { verdict: Verdict::Inconclusive("reference out of fuel".into()), facts };
            }
            facts.nontrivial = true;
            CaseResult { verdict: Verdict::Pass, facts }
        }
    }
}

pub fn show_terms(ts: &[T]) -> Vec<String> {
    ts.iter().map(|t| t.show()).collect()
}

/// Is `ans` (a canonical answer term) among the reference answers of `p`? None = undecided.
pub fn member_of(p: &Program, ans: &T) -> Option<bool> {
    // Constrain the query variables to the answer (reified variables become fresh variables), then
    // look for a reference answer that is exactly the engine's answer up to renaming.
    let mut anys = vec![];
    ans.anys(&mut anys);
    let base = 1_000_000u32;
    fn subst(t: &T, base: u32) -> T {
        match t {
            T::Any(k) => T::V(base + k),
            T::Cons(h, tl) => T::cons(subst(h, base), subst(tl, base)),
            T::Cmp(k, a, b) => T::cmp(*k, subst(a, base), subst(b, base)),
            other => other.clone(),
        }
    }
    let pattern = subst(ans, base);
    let qlist = T::list((0..p.nq).map(T::V).collect());
    let mut body = vec![G::Eq(qlist, pattern)];
    body.extend(p.body.iter().cloned());
    let constrained = Program {
        nq: p.nq,
        defs: p.defs.clone(),
        body: vec![G::Fresh(anys.iter().map(|k| base + k).collect(), body)],
    };
    let mut undecided = false;
    for rec_depth in [6u32, 16, 40] {
        let out = R1::new(
            &constrained,
            refint::Opts { choice_script: None, fuel: 40_000, unfold: 1, rec_depth, max_answers: 2_000 },
        )
        .run();
        if out.answers.iter().any(|a| &a.term == ans) {
            return Some(true);
        }
        undecided = out.cut;
        if !undecided {
            break;
        }
    }
    if undecided {
        None
    } else {
        Some(false)
    }
}
