//! Human-readable rendering of programs (for replay files, samples and messages).
use crate::ast::*;

fn terms(ts: &[T]) -> String {
    ts.iter().map(|t| t.show()).collect::<Vec<_>>().join(", ")
}

fn goals(gs: &[G]) -> String {
    gs.iter().map(goal).collect::<Vec<_>>().join(", ")
}

fn clauses(cs: &[Vec<G>]) -> String {
    cs.iter()
        .map(|c| format!("[{}]", goals(c)))
        .collect::<Vec<_>>()
        .join(", ")
}

pub fn goal(g: &G) -> String {
    match g {
        G::Succeed => "true".into(),
        G::Fail => "false".into(),
        G::Eq(a, b) => format!("{} == {}", a.show(), b.show()),
        G::Neq(a, b) => format!("{} != {}", a.show(), b.show()),
        G::Conj(gs) => format!("[{}]", goals(gs)),
        G::Conde(cs) => format!("conde {{ {} }}", clauses(cs)),
        G::Disj(a, b) => format!("disj({}, {})", goal(a), goal(b)),
        G::Fresh(vs, gs) => format!(
            "|{}| {{ {} }}",
            vs.iter().map(|v| format!("v{}", v)).collect::<Vec<_>>().join(", "),
            goals(gs)
        ),
        G::Leaf(l) => format!(
            "leaf#{}({} in [{}]; {:?}, {:?}{})",
            l.id,
            l.target.show(),
            l.answers
                .iter()
                .map(|a| if a.latency > 0 {
                    format!("{}@{}", a.value.show(), a.latency)
                } else {
                    a.value.show()
                })
                .collect::<Vec<_>>()
                .join(", "),
            l.shape,
            l.tail,
            if l.end_latency > 0 { format!(", end@{}", l.end_latency) } else { String::new() }
        ),
        G::Call(r, a) => format!("{:?}({})", r, terms(a)).to_lowercase(),
        G::CallDef(i, a) => format!("def{}({})", i, terms(a)),
        G::Closure(gs) => format!("closure {{ {} }}", goals(gs)),
        G::Conda(cs) => format!("conda {{ {} }}", clauses(cs)),
        G::Condu(cs) => format!("condu {{ {} }}", clauses(cs)),
        G::Onceo(gs) => format!("onceo {{ {} }}", goals(gs)),
        G::Dfs(gs) => format!("dfs {{ {} }}", goals(gs)),
        G::Anyo(gs) => format!("loop {{ {} }}", goals(gs)),
        G::For(x, coll, gs) => format!("for v{} in [{}] {{ {} }}", x, terms(coll), goals(gs)),
        G::Project(vs, gs) => format!(
            "project |{}| {{ {} }}",
            vs.iter().map(|v| format!("v{}", v)).collect::<Vec<_>>().join(", "),
            goals(gs)
        ),
        G::Prim(f, a, b) => format!("{:?}({}, {})", f, a.show(), b.show()).to_lowercase(),
        G::Dom(t, vals) => format!("infd({}, {:?})", t.show(), vals),
        G::DomRange(t, lo, hi) => format!("infdrange({}, {}..={})", t.show(), lo, hi),
        G::Ltefd(a, b) => format!("ltefd({}, {})", a.show(), b.show()),
        G::Ltfd(a, b) => format!("ltfd({}, {})", a.show(), b.show()),
        G::Plusfd(a, b, c) => format!("plusfd({}, {}, {})", a.show(), b.show(), c.show()),
        G::Minusfd(a, b, c) => format!("minusfd({}, {}, {})", a.show(), b.show(), c.show()),
        G::Timesfd(a, b, c) => format!("timesfd({}, {}, {})", a.show(), b.show(), c.show()),
        G::Diseqfd(a, b) => format!("diseqfd({}, {})", a.show(), b.show()),
        G::Distinctfd(ts) => format!("distinctfd([{}])", terms(ts)),
        G::Plusz(a, b, c) => format!("plusz({}, {}, {})", a.show(), b.show(), c.show()),
        G::Timesz(a, b, c) => format!("timesz({}, {}, {})", a.show(), b.show(), c.show()),
        G::UserTag(t) => format!("usertag({})", t),
        G::Probe(i) => format!("probe({})", i),
        G::Observe(i) => format!("observe({})", i),
    }
}

pub fn program(p: &Program) -> String {
    let mut s = String::new();
    for (i, d) in p.defs.iter().enumerate() {
        s.push_str(&format!(
            "def{}({}) := {}; ",
            i,
            d.params.iter().map(|v| format!("v{}", v)).collect::<Vec<_>>().join(", "),
            goals(&d.body)
        ));
    }
    s.push_str(&format!(
        "query |{}| {{ {} }}",
        (0..p.nq).map(|v| format!("v{}", v)).collect::<Vec<_>>().join(", "),
        goals(&p.body)
    ));
    s
}
