//! splitmix64 / xoshiro256** — own code, so that a seed means the same thing forever.

#[inline]
pub fn splitmix64(x: &mut u64) -> u64 {
    *x = x.wrapping_add(0x9E37_79B9_7F4A_7C15);
    let mut z = *x;
    z = (z ^ (z >> 30)).wrapping_mul(0xBF58_476D_1CE4_E5B9);
    z = (z ^ (z >> 27)).wrapping_mul(0x94D0_49BB_1331_11EB);
    z ^ (z >> 31)
}

/// Stateless mix of several words into one.
pub fn mix(words: &[u64]) -> u64 {
    let mut s = 0x243F_6A88_85A3_08D3u64;
    let mut out = 0u64;
    for w in words {
        s ^= *w;
        out = splitmix64(&mut s) ^ out.rotate_left(17);
    }
    let mut t = out ^ s;
    splitmix64(&mut t)
}

pub fn hash_str(s: &str) -> u64 {
    // FNV-1a
    let mut h = 0xcbf2_9ce4_8422_2325u64;
    for b in s.as_bytes() {
        h ^= *b as u64;
        h = h.wrapping_mul(0x100_0000_01b3);
    }
    h
}

#[derive(Clone, Debug)]
pub struct Rng {
    s: [u64; 4],
}

impl Rng {
    pub fn new(seed: u64) -> Rng {
        let mut x = seed;
        let s = [
            splitmix64(&mut x),
            splitmix64(&mut x),
            splitmix64(&mut x),
            splitmix64(&mut x),
        ];
        Rng { s }
    }

    #[inline]
    pub fn next_u64(&mut self) -> u64 {
        let result = self.s[1].wrapping_mul(5).rotate_left(7).wrapping_mul(9);
        let t = self.s[1] << 17;
        self.s[2] ^= self.s[0];
        self.s[3] ^= self.s[1];
        self.s[1] ^= self.s[2];
        self.s[0] ^= self.s[3];
        self.s[2] ^= t;
        self.s[3] = self.s[3].rotate_left(45);
        result
    }

    /// Uniform in 0..n (n > 0).
    #[inline]
    pub fn below(&mut self, n: usize) -> usize {
        debug_assert!(n > 0);
        ((self.next_u64() >> 11) % (n as u64)) as usize
    }

    /// Uniform in lo..=hi.
    #[inline]
    pub fn range(&mut self, lo: i64, hi: i64) -> i64 {
        debug_assert!(lo <= hi);
        lo + self.below((hi - lo + 1) as usize) as i64
    }

    #[inline]
    pub fn chance(&mut self, num: u32, den: u32) -> bool {
        (self.below(den as usize) as u32) < num
    }

    pub fn pick<'a, T>(&mut self, xs: &'a [T]) -> &'a T {
        &xs[self.below(xs.len())]
    }

    pub fn shuffle<T>(&mut self, xs: &mut [T]) {
        for i in (1..xs.len()).rev() {
            let j = self.below(i + 1);
            xs.swap(i, j);
        }
    }

    pub fn permutation(&mut self, n: usize) -> Vec<usize> {
        let mut p: Vec<usize> = (0..n).collect();
        self.shuffle(&mut p);
        p
    }
}
