//! Program AST shared by generators, the goal builder, the reference models and replay files.
use serde::{Deserialize, Serialize};

pub type VarIx = u32;

#[derive(Clone, Debug, PartialEq, Eq, Hash, PartialOrd, Ord, Serialize, Deserialize)]
pub enum T {
    /// Program variable (query variables are 0..nq; the rest are introduced by `Fresh`).
    V(VarIx),
    I(i64),
    S(String),
    B(bool),
    Nil,
    Cons(Box<T>, Box<T>),
    /// Reified free variable of an answer, numbered by first occurrence (never in programs).
    Any(u32),
    /// Compound term with two fields: kind 0 = `Pair(a, b)`, kind 1 = `Duo(a, b)` (two `#[compound]`
    /// structs of the harness). Terms of different kinds never unify.
    Cmp(u8, Box<T>, Box<T>),
}

impl T {
    pub fn list(items: Vec<T>) -> T {
        let mut t = T::Nil;
        for i in items.into_iter().rev() {
            t = T::Cons(Box::new(i), Box::new(t));
        }
        t
    }

    pub fn improper(items: Vec<T>, tail: T) -> T {
        let mut t = tail;
        for i in items.into_iter().rev() {
            t = T::Cons(Box::new(i), Box::new(t));
        }
        t
    }

    pub fn cons(h: T, t: T) -> T {
        T::Cons(Box::new(h), Box::new(t))
    }

    pub fn cmp(kind: u8, a: T, b: T) -> T {
        T::Cmp(kind, Box::new(a), Box::new(b))
    }

    pub fn has_compound(&self) -> bool {
        match self {
            T::Cmp(..) => true,
            T::Cons(h, t) => h.has_compound() || t.has_compound(),
            _ => false,
        }
    }

    pub fn is_ground(&self) -> bool {
        match self {
            T::V(_) | T::Any(_) => false,
            T::Cons(h, t) | T::Cmp(_, h, t) => h.is_ground() && t.is_ground(),
            _ => true,
        }
    }

    pub fn vars(&self, out: &mut Vec<VarIx>) {
        match self {
            T::V(v) => {
                if !out.contains(v) {
                    out.push(*v)
                }
            }
            T::Cons(h, t) | T::Cmp(_, h, t) => {
                h.vars(out);
                t.vars(out);
            }
            _ => {}
        }
    }

    pub fn anys(&self, out: &mut Vec<u32>) {
        match self {
            T::Any(v) => {
                if !out.contains(v) {
                    out.push(*v)
                }
            }
            T::Cons(h, t) | T::Cmp(_, h, t) => {
                h.anys(out);
                t.anys(out);
            }
            _ => {}
        }
    }

    pub fn size(&self) -> usize {
        match self {
            T::Cons(h, t) | T::Cmp(_, h, t) => 1 + h.size() + t.size(),
            _ => 1,
        }
    }

    pub fn show(&self) -> String {
        match self {
            T::V(v) => format!("v{}", v),
            T::Any(v) => format!("_{}", v),
            T::I(i) => format!("{}", i),
            T::S(s) => format!("{:?}", s),
            T::B(b) => format!("{}", b),
            T::Nil => "[]".to_string(),
            T::Cmp(k, a, b) => format!("{}({}, {})", if *k == 0 { "Pair" } else { "Duo" }, a.show(), b.show()),
            T::Cons(_, _) => {
                let mut s = String::from("[");
                let mut cur = self;
                let mut first = true;
                loop {
                    match cur {
                        T::Cons(h, t) => {
                            if !first {
                                s.push_str(", ");
                            }
                            first = false;
                            s.push_str(&h.show());
                            cur = t;
                        }
                        T::Nil => break,
                        other => {
                            s.push_str(" | ");
                            s.push_str(&other.show());
                            break;
                        }
                    }
                }
                s.push(']');
                s
            }
        }
    }
}

/// How a simulated leaf delivers its answers to the engine.
#[derive(Clone, Copy, Debug, PartialEq, Eq, Hash, Serialize, Deserialize)]
pub enum Shape {
    /// `Delay^lat(Cons(a1, Delay^lat(Cons(a2, ...))))`; all latencies zero gives a burst.
    Chain,
    /// Each answer is produced by its own `Pause` that the engine has to run (lazy unification).
    Pauses,
    /// Through `Lazy::Iterator` (the library's `StreamIterator` seam).
    Iter,
}

/// What a leaf does after its last scripted answer.
#[derive(Clone, Copy, Debug, PartialEq, Eq, Hash, Serialize, Deserialize)]
pub enum Tail {
    End,
    /// Diverge silently: suspended forever, never another answer.
    Stall,
    /// Start the script again, forever.
    Flood,
}

#[derive(Clone, Debug, PartialEq, Eq, Hash, Serialize, Deserialize)]
pub struct LeafAns {
    pub value: T,
    pub latency: u8,
}

#[derive(Clone, Debug, PartialEq, Eq, Hash, Serialize, Deserialize)]
pub struct Leaf {
    pub id: u32,
    pub target: T,
    pub answers: Vec<LeafAns>,
    pub shape: Shape,
    pub tail: Tail,
    /// Extra suspensions after the last answer before the stream ends (Tail::End only).
    pub end_latency: u8,
}

#[derive(Clone, Copy, Debug, PartialEq, Eq, Hash, Serialize, Deserialize)]
pub enum Rel {
    Member,
    Member1,
    Append,
    Rember,
    Permute,
    ConsR,
    First,
    Rest,
    Empty,
    Distinct,
    Always,
    Never,
    Succeed,
    Fail,
}

/// Non-relational functions available to `Project`/`FnProbe` bodies.
#[derive(Clone, Copy, Debug, PartialEq, Eq, Hash, Serialize, Deserialize)]
pub enum PFn {
    /// out == in * in (fails unless `in` is a number at call time, without walking)
    Square,
    /// succeeds iff `in` is (syntactically, without walking) a number
    IsNumber,
    /// succeeds iff `in` is (syntactically) an unbound variable
    IsVar,
    /// out == in + 1
    Succ,
    /// out == h * h where `in` is (syntactically) a list cell whose head is the number h
    HeadSquare,
    /// succeeds iff `in` contains (syntactically, descending lists and compound terms without
    /// walking) no variable
    IsGround,
}

#[derive(Clone, Debug, PartialEq, Eq, Hash, Serialize, Deserialize)]
pub enum G {
    Succeed,
    Fail,
    Eq(T, T),
    Neq(T, T),
    Conj(Vec<G>),
    /// Interleaving (or, inside `Dfs`, depth-first) disjunction of conjunctions: `conde`/`cond`.
    Conde(Vec<Vec<G>>),
    /// Binary `Disj::new` / `DFSDisj::new`.
    Disj(Box<G>, Box<G>),
    Fresh(Vec<VarIx>, Vec<G>),
    Leaf(Leaf),
    Call(Rel, Vec<T>),
    /// Call of a program-defined relation (see `Program::defs`), unfolded through a closure.
    CallDef(u32, Vec<T>),
    /// `closure { body }`: body goals are constructed anew at every solve.
    Closure(Vec<G>),
    Conda(Vec<Vec<G>>),
    Condu(Vec<Vec<G>>),
    Onceo(Vec<G>),
    /// `dfs { ... }` block.
    Dfs(Vec<G>),
    /// `loop { ... }` / anyo.
    Anyo(Vec<G>),
    /// `for x in coll { body }` with x = the VarIx, coll = terms.
    For(VarIx, Vec<T>, Vec<G>),
    /// `project |vars| { body }`.
    Project(Vec<VarIx>, Vec<G>),
    /// Non-relational primitive applied to (input, output) terms.
    Prim(PFn, T, T),
    // ---- CLP(FD)
    Dom(T, Vec<i64>),
    DomRange(T, i64, i64),
    Ltefd(T, T),
    Ltfd(T, T),
    Plusfd(T, T, T),
    Minusfd(T, T, T),
    Timesfd(T, T, T),
    Diseqfd(T, T),
    Distinctfd(Vec<T>),
    // ---- CLP(Z)
    Plusz(T, T, T),
    Timesz(T, T, T),
    // ---- instrumented user state
    /// Append a tag to the per-branch user path log.
    UserTag(u32),
    /// fngoal probe: check the user-hook invariants of C22 in the state that reaches it.
    Probe(u32),
    /// fngoal observer: log the walked query variables of the state that reaches it, in the
    /// order states reach it (observation point inside the search, before any continuation).
    Observe(u32),
}

#[derive(Clone, Debug, PartialEq, Eq, Hash, Serialize, Deserialize)]
pub struct Def {
    pub params: Vec<VarIx>,
    pub body: Vec<G>,
}

#[derive(Clone, Debug, PartialEq, Eq, Hash, Serialize, Deserialize)]
pub struct Program {
    /// Number of query variables (V(0)..V(nq-1)).
    pub nq: u32,
    pub defs: Vec<Def>,
    pub body: Vec<G>,
}

impl G {
    pub fn conj(mut gs: Vec<G>) -> G {
        if gs.len() == 1 {
            gs.pop().unwrap()
        } else {
            G::Conj(gs)
        }
    }

    /// Visit all direct child goal lists.
    pub fn children(&self) -> Vec<&G> {
        match self {
            G::Conj(gs)
            | G::Fresh(_, gs)
            | G::Closure(gs)
            | G::Onceo(gs)
            | G::Dfs(gs)
            | G::Anyo(gs)
            | G::For(_, _, gs)
            | G::Project(_, gs) => gs.iter().collect(),
            G::Conde(cs) | G::Conda(cs) | G::Condu(cs) => cs.iter().flatten().collect(),
            G::Disj(a, b) => vec![a.as_ref(), b.as_ref()],
            _ => vec![],
        }
    }

    pub fn count_nodes(&self) -> usize {
        1 + self.children().iter().map(|c| c.count_nodes()).sum::<usize>()
    }

    pub fn any<F: Fn(&G) -> bool + Copy>(&self, f: F) -> bool {
        f(self) || self.children().iter().any(|c| c.any(f))
    }
}

impl Program {
    pub fn any<F: Fn(&G) -> bool + Copy>(&self, f: F) -> bool {
        self.body.iter().any(|g| g.any(f))
            || self.defs.iter().any(|d| d.body.iter().any(|g| g.any(f)))
    }

    pub fn nodes(&self) -> usize {
        self.body.iter().map(|g| g.count_nodes()).sum::<usize>()
            + self
                .defs
                .iter()
                .map(|d| d.body.iter().map(|g| g.count_nodes()).sum::<usize>())
                .sum::<usize>()
    }
}
