//! /verif/known_findings.json: read-only at run time.
use serde::Deserialize;

#[derive(Clone, Debug, Deserialize)]
pub struct Finding {
    pub property: String,
    /// "known" (recorded, not repaired) or "fixed" (repaired by a fix: commit; regression only)
    pub status: String,
    #[serde(default)]
    pub class: String,
    /// path of the reproducer case file, relative to /verif
    pub reproducer: String,
    pub description: String,
    #[serde(default)]
    pub commit: String,
}

pub fn load(verif_dir: &str) -> Vec<Finding> {
    let path = format!("{}/known_findings.json", verif_dir);
    match std::fs::read_to_string(&path) {
        Ok(text) => match serde_json::from_str::<serde_json::Value>(&text) {
            Ok(v) => {
                let items = v.get("findings").cloned().unwrap_or(serde_json::Value::Array(vec![]));
                serde_json::from_value(items).unwrap_or_else(|e| {
                    eprintln!("harness error: {} is malformed: {}", path, e);
                    std::process::exit(2);
                })
            }
            Err(e) => {
                eprintln!("harness error: {} is not JSON: {}", path, e);
                std::process::exit(2);
            }
        },
        Err(_) => vec![],
    }
}
