//! C15: a fixed corpus of relations written with the real macros (compiled against the current
//! tree at check time): shadowing, same names in sibling scopes and pattern arms, repeated
//! pattern variables, recursion through `proto_vulcan_closure!` with fresh variables per
//! unfolding — each with a hand-renamed twin and the expected answers.
use crate::ast::T;
use proto_vulcan::prelude::*;
use proto_vulcan::relation::member;

type L<U, E> = LTerm<U, E>;

// ---- 1. an inner fresh variable shadows an outer one of the same name
fn shadow<U: User, E: Engine<U>>(q: L<U, E>) -> Goal<U, E> {
    proto_vulcan!(|x| {
        x == 1,
        |x| {
            x == 2,
            q == x,
        },
    })
}
fn shadow_twin<U: User, E: Engine<U>>(q: L<U, E>) -> Goal<U, E> {
    proto_vulcan!(|a| {
        a == 1,
        |b| {
            b == 2,
            q == b,
        },
    })
}

// ---- 2. the same name in sibling scopes
fn siblings<U: User, E: Engine<U>>(q: L<U, E>) -> Goal<U, E> {
    proto_vulcan!(conde {
        |x| { x == 1, q == [x, x] },
        |x| { x == 2, q == [x, 0] },
    })
}
fn siblings_twin<U: User, E: Engine<U>>(q: L<U, E>) -> Goal<U, E> {
    proto_vulcan!(conde {
        |u| { u == 1, q == [u, u] },
        |w| { w == 2, q == [w, 0] },
    })
}

// ---- 3. the same names in different pattern arms, and a pattern variable shadowing a parameter
fn arms<U: User, E: Engine<U>>(x: L<U, E>, q: L<U, E>) -> Goal<U, E> {
    proto_vulcan!(match x {
        [x | _] => q == [x, "head"],
        [_, x | _] => q == [x, "second"],
        [] => q == "empty",
    })
}
fn arms_twin<U: User, E: Engine<U>>(l: L<U, E>, q: L<U, E>) -> Goal<U, E> {
    proto_vulcan!(match l {
        [h | _] => q == [h, "head"],
        [_, s | _] => q == [s, "second"],
        [] => q == "empty",
    })
}

// ---- 4. a name repeated within one pattern denotes one variable
fn repeated<U: User, E: Engine<U>>(l: L<U, E>, q: L<U, E>) -> Goal<U, E> {
    proto_vulcan!(match l {
        [x, x] => q == x,
        [x, y, x] => q == [x, y],
    })
}

// ---- 5. recursion through a closure: fresh variables per unfolding
fn pairs<U: User, E: Engine<U>>(l: L<U, E>, out: L<U, E>) -> Goal<U, E> {
    proto_vulcan_closure!(match l {
        [] => out == [],
        [h | t] => |r| {
            out == [[h, h] | r],
            pairs(t, r),
        },
    })
}
fn pairs_twin<U: User, E: Engine<U>>(xs: L<U, E>, acc: L<U, E>) -> Goal<U, E> {
    proto_vulcan_closure!(match xs {
        [] => acc == [],
        [first | others] => |tail| {
            acc == [[first, first] | tail],
            pairs_twin(others, tail),
        },
    })
}

// ---- 6. two invocations of one relation alive in the same conjunction
fn pick<U: User, E: Engine<U>>(l: L<U, E>, out: L<U, E>) -> Goal<U, E> {
    proto_vulcan_closure!(|x| {
        member(x, l),
        out == [x],
    })
}
fn two_picks<U: User, E: Engine<U>>(q: L<U, E>) -> Goal<U, E> {
    proto_vulcan!(|a, b| {
        pick([1, 2], a),
        pick([3, 4], b),
        q == [a, b],
    })
}

// ---- 6b. ONE closure goal object (fresh block directly inside the closure) solved twice in
// one conjunction: each solve creates its own `x`
fn either<U: User, E: Engine<U>>(a: L<U, E>, b: L<U, E>) -> Goal<U, E> {
    proto_vulcan_closure!(|x| {
        conde {
            [x == 1, a == 1],
            [x == 2, b == 2],
        }
    })
}
fn either_twin<U: User, E: Engine<U>>(a: L<U, E>, b: L<U, E>) -> Goal<U, E> {
    proto_vulcan_closure!([|fresh_y| {
        conde {
            [fresh_y == 1, a == 1],
            [fresh_y == 2, b == 2],
        }
    }])
}
fn shared_twice<U: User, E: Engine<U>>(q: L<U, E>) -> Goal<U, E> {
    let a: L<U, E> = LTerm::var("a");
    let b: L<U, E> = LTerm::var("b");
    let g = either(a.clone(), b.clone());
    let g2 = g.clone();
    proto_vulcan!([g, g2, q == [a, b]])
}
fn shared_twice_twin<U: User, E: Engine<U>>(q: L<U, E>) -> Goal<U, E> {
    let a: L<U, E> = LTerm::var("a");
    let b: L<U, E> = LTerm::var("b");
    let g = either_twin(a.clone(), b.clone());
    let g2 = g.clone();
    proto_vulcan!([g, g2, q == [a, b]])
}

// ---- 7. a fresh variable reused after its scope ended
fn reused<U: User, E: Engine<U>>(q: L<U, E>) -> Goal<U, E> {
    proto_vulcan!([
        |x| { x == 1 },
        |x| { x == 2, q == x },
    ])
}

// ---- 7b. an arm that does not bind a name sees the enclosing variable of that name, also when a
// sibling arm binds the same name as a pattern variable
fn outer_in_arm<U: User, E: Engine<U>>(q: L<U, E>) -> Goal<U, E> {
    proto_vulcan!(|x| {
        x == 5,
        match [1, 2] {
            [x, 7] => q == x,
            [_, y] => q == [x, y],
        }
    })
}
fn outer_in_arm_twin<U: User, E: Engine<U>>(q: L<U, E>) -> Goal<U, E> {
    proto_vulcan!(|x| {
        x == 5,
        match [1, 2] {
            [z, 7] => q == z,
            [_, y] => q == [x, y],
        }
    })
}

// ---- 8. recursion with an accumulator and a shadowing fresh variable inside the unfolding
fn rev_acc<U: User, E: Engine<U>>(l: L<U, E>, acc: L<U, E>, out: L<U, E>) -> Goal<U, E> {
    proto_vulcan_closure!(match l {
        [] => out == acc,
        [h | t] => |acc| {
            // this `acc` is a new variable; the parameter of the same name is not visible here
            acc == [h],
            |acc2| {
                acc2 == [h | out],
                rev_probe(t, acc2),
            },
        },
    })
}
fn rev_probe<U: User, E: Engine<U>>(l: L<U, E>, shape: L<U, E>) -> Goal<U, E> {
    proto_vulcan!(match l {
        [] => shape == shape,
        [_ | _] => shape == shape,
    })
}

pub struct Entry {
    pub name: &'static str,
    /// builds the body goal for one query variable
    pub build: fn(crate::simuser::PTerm) -> crate::simuser::PGoal,
    /// the renamed twin, if there is one
    pub twin: Option<fn(crate::simuser::PTerm) -> crate::simuser::PGoal>,
    /// expected answers (values of the query variable), as a multiset
    pub expected: fn() -> Vec<T>,
}

fn i(n: i64) -> T {
    T::I(n)
}
fn s(x: &str) -> T {
    T::S(x.to_string())
}

pub fn corpus() -> Vec<Entry> {
    vec![
        Entry { name: "shadow", build: |q| shadow(q), twin: Some(|q| shadow_twin(q)), expected: || vec![i(2)] },
        Entry {
            name: "siblings",
            build: |q| siblings(q),
            twin: Some(|q| siblings_twin(q)),
            expected: || vec![T::list(vec![i(1), i(1)]), T::list(vec![i(2), i(0)])],
        },
        Entry {
            name: "arms",
            build: |q| arms(lterm!([7, 8, 9]), q),
            twin: Some(|q| arms_twin(lterm!([7, 8, 9]), q)),
            expected: || vec![T::list(vec![i(7), s("head")]), T::list(vec![i(8), s("second")])],
        },
        Entry {
            name: "arms-empty",
            build: |q| arms(lterm!([]), q),
            twin: Some(|q| arms_twin(lterm!([]), q)),
            expected: || vec![s("empty")],
        },
        Entry { name: "repeated-same", build: |q| repeated(lterm!([5, 5]), q), twin: None, expected: || vec![i(5)] },
        Entry { name: "repeated-different", build: |q| repeated(lterm!([5, 6]), q), twin: None, expected: || vec![] },
        Entry {
            name: "repeated-three",
            build: |q| repeated(lterm!([5, 6, 5]), q),
            twin: None,
            expected: || vec![T::list(vec![i(5), i(6)])],
        },
        Entry {
            name: "pairs",
            build: |q| pairs(lterm!([1, 2, 3]), q),
            twin: Some(|q| pairs_twin(lterm!([1, 2, 3]), q)),
            expected: || {
                vec![T::list(vec![
                    T::list(vec![i(1), i(1)]),
                    T::list(vec![i(2), i(2)]),
                    T::list(vec![i(3), i(3)]),
                ])]
            },
        },
        Entry {
            name: "two-picks",
            build: |q| two_picks(q),
            twin: None,
            expected: || {
                let mut v = vec![];
                for a in [1, 2] {
                    for b in [3, 4] {
                        v.push(T::list(vec![T::list(vec![i(a)]), T::list(vec![i(b)])]));
                    }
                }
                v
            },
        },
        Entry {
            name: "shared-closure-goal",
            build: |q| shared_twice(q),
            twin: Some(|q| shared_twice_twin(q)),
            // (x1, x2) in {1,2}^2: a is 1 if some pick was 1, b is 2 if some pick was 2
            expected: || {
                vec![
                    T::list(vec![i(1), T::Any(0)]),
                    T::list(vec![i(1), i(2)]),
                    T::list(vec![i(1), i(2)]),
                    T::list(vec![T::Any(0), i(2)]),
                ]
            },
        },
        Entry { name: "reused", build: |q| reused(q), twin: None, expected: || vec![i(2)] },
        Entry {
            name: "outer-name-in-sibling-arm",
            build: |q| outer_in_arm(q),
            twin: Some(|q| outer_in_arm_twin(q)),
            expected: || vec![T::list(vec![i(5), i(2)])],
        },
        Entry {
            name: "rev-acc",
            build: |q| rev_acc(lterm!([1, 2]), lterm!([]), q),
            twin: None,
            // out stays a fresh variable: one answer, unbound
            expected: || vec![T::Any(0)],
        },
    ]
}
