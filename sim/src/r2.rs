//! R2: ground-instance semantics for pure tree programs (==, !=, conj, conde, fresh).
//!
//! Both sides are computed exactly over a finite universe `U` of ground terms for the query
//! variables: the set of assignments the *program* accepts (truth) and the set of assignments
//! the *engine's answers* cover. Hidden (fresh) variables are existential on both sides.
use crate::ast::*;
use crate::engine::EAnswer;
use crate::refint::{self, unify};
use crate::rng::Rng;
use std::collections::BTreeMap;

/// Atoms of the universe: the program's constants plus two atoms the program does not mention.
pub fn atoms(p: &Program) -> Vec<T> {
    let mut out: Vec<T> = vec![];
    fn term_atoms(t: &T, out: &mut Vec<T>) {
        match t {
            T::Cons(h, tl) | T::Cmp(_, h, tl) => {
                term_atoms(h, out);
                term_atoms(tl, out);
            }
            T::V(_) | T::Any(_) | T::Nil => {}
            other => {
                if !out.contains(other) {
                    out.push(other.clone())
                }
            }
        }
    }
    fn visit(g: &G, out: &mut Vec<T>) {
        match g {
            G::Eq(a, b) | G::Neq(a, b) => {
                term_atoms(a, out);
                term_atoms(b, out);
            }
            _ => {}
        }
        for c in g.children() {
            visit(c, out);
        }
    }
    for g in p.body.iter() {
        visit(g, &mut out);
    }
    out.sort();
    out.push(T::S("fresh1".into()));
    out.push(T::S("fresh2".into()));
    out
}

pub fn has_compound(p: &Program) -> bool {
    p.any(|g| match g {
        G::Eq(a, b) | G::Neq(a, b) => a.has_compound() || b.has_compound(),
        _ => false,
    })
}

/// Universe: atoms and Nil, pairs over them, and (proper or improper) lists of two elements.
pub fn universe(p: &Program) -> Vec<T> {
    let mut l0 = atoms(p);
    l0.push(T::Nil);
    let mut u = l0.clone();
    for a in l0.iter() {
        for b in l0.iter() {
            u.push(T::cons(a.clone(), b.clone()));
        }
    }
    if has_compound(p) {
        for a in l0.iter() {
            for b in l0.iter() {
                u.push(T::cmp(0, a.clone(), b.clone()));
                u.push(T::cmp(1, a.clone(), b.clone()));
            }
        }
    }
    for a in l0.iter() {
        for b in l0.iter() {
            for c in l0.iter() {
                u.push(T::cons(a.clone(), T::cons(b.clone(), c.clone())));
            }
        }
    }
    u
}

fn eval(t: &T, asg: &BTreeMap<VarIx, T>) -> Option<T> {
    match t {
        T::V(v) => asg.get(v).cloned(),
        T::Cons(h, tl) => Some(T::cons(eval(h, asg)?, eval(tl, asg)?)),
        T::Cmp(k, a, b) => Some(T::cmp(*k, eval(a, asg)?, eval(b, asg)?)),
        T::Any(_) => None,
        other => Some(other.clone()),
    }
}

/// Structural truth of a formula without hidden variables under a total assignment.
fn holds(g: &G, asg: &BTreeMap<VarIx, T>) -> Option<bool> {
    match g {
        G::Succeed => Some(true),
        G::Fail => Some(false),
        G::Eq(a, b) => Some(eval(a, asg)? == eval(b, asg)?),
        G::Neq(a, b) => Some(eval(a, asg)? != eval(b, asg)?),
        G::Conj(gs) => {
            for x in gs {
                if !holds(x, asg)? {
                    return Some(false);
                }
            }
            Some(true)
        }
        G::Conde(cs) => {
            for c in cs {
                let mut all = true;
                for x in c {
                    if !holds(x, asg)? {
                        all = false;
                        break;
                    }
                }
                if all {
                    return Some(true);
                }
            }
            Some(false)
        }
        G::Disj(a, b) => Some(holds(a, asg)? || holds(b, asg)?),
        _ => None,
    }
}

pub fn has_hidden(p: &Program) -> bool {
    p.any(|g| matches!(g, G::Fresh(..)))
}

/// Does the program accept the assignment `sigma` of its query variables?
/// Without hidden variables: brute-force structural evaluation. With hidden variables: the
/// reference interpreter decides whether `q == sigma, body` has an answer (a final state whose
/// disequalities are in solved form is satisfiable over the infinite Herbrand universe).
pub fn accepts(p: &Program, sigma: &[T], hidden: bool) -> Option<bool> {
    if !hidden {
        let asg: BTreeMap<VarIx, T> = sigma.iter().enumerate().map(|(i, t)| (i as u32, t.clone())).collect();
        for g in p.body.iter() {
            if !holds(g, &asg)? {
                return Some(false);
            }
        }
        Some(true)
    } else {
        let qlist = T::list((0..p.nq).map(T::V).collect());
        let mut body = vec![G::Eq(qlist, T::list(sigma.to_vec()))];
        body.extend(p.body.iter().cloned());
        let prog = Program { nq: p.nq, defs: vec![], body };
        let out = refint::R1::new(&prog, refint::Opts { fuel: 20_000, max_answers: 1, ..Default::default() }).run();
        if !out.answers.is_empty() {
            Some(true)
        } else if out.cut {
            None
        } else {
            Some(false)
        }
    }
}

/// One-way matching of an answer term (with `Any`) against a ground term.
fn matches(pat: &T, ground: &T, theta: &mut BTreeMap<u32, T>) -> bool {
    match (pat, ground) {
        (T::Any(k), g) => match theta.get(k) {
            Some(prev) => prev == g,
            None => {
                theta.insert(*k, g.clone());
                true
            }
        },
        (T::Cons(h1, t1), T::Cons(h2, t2)) => matches(h1, h2, theta) && matches(t1, t2, theta),
        (T::Cmp(k1, a1, b1), T::Cmp(k2, a2, b2)) => k1 == k2 && matches(a1, a2, theta) && matches(b1, b2, theta),
        (a, b) => a == b,
    }
}

fn subst_any(t: &T, theta: &BTreeMap<u32, T>, base: u32) -> T {
    match t {
        T::Any(k) => match theta.get(k) {
            Some(g) => g.clone(),
            // a reified variable that does not occur in the answer term: existential
            None => T::V(base + 1000 + *k),
        },
        T::V(k) => T::V(base + *k),
        T::Cons(h, tl) => T::cons(subst_any(h, theta, base), subst_any(tl, theta, base)),
        T::Cmp(k, a, b) => T::cmp(*k, subst_any(a, theta, base), subst_any(b, theta, base)),
        other => other.clone(),
    }
}

/// Does the engine answer cover the assignment `sigma` (as a list term)?
pub fn covers(ans: &EAnswer, sigma_list: &T) -> bool {
    let mut theta = BTreeMap::new();
    if !matches(&ans.term, sigma_list, &mut theta) {
        return false;
    }
    // a constraint is the conjunction of its pairs that must not hold; hidden variables are
    // existential, so it only rules sigma out when all pairs already hold
    for c in ans.diseqs.iter() {
        let mut s = BTreeMap::new();
        let mut ext = vec![];
        let mut all_hold_possible = true;
        for (a, b) in c.iter() {
            let a2 = subst_any(a, &theta, 0);
            let b2 = subst_any(b, &theta, 0);
            if !unify(&a2, &b2, &mut s, &mut ext) {
                all_hold_possible = false;
                break;
            }
        }
        if all_hold_possible && ext.is_empty() {
            return false;
        }
    }
    true
}

/// The assignments to compare on: all of `U^nq` when small enough, otherwise a seeded sample.
pub fn assignments(u: &[T], nq: usize, rng: &mut Rng, limit: usize) -> (Vec<Vec<T>>, bool) {
    let total = (u.len() as u64).saturating_pow(nq as u32);
    if total as usize <= limit {
        let mut out = vec![];
        let mut idx = vec![0usize; nq];
        loop {
            out.push(idx.iter().map(|i| u[*i].clone()).collect());
            let mut k = 0;
            loop {
                if k == nq {
                    return (out, true);
                }
                idx[k] += 1;
                if idx[k] < u.len() {
                    break;
                }
                idx[k] = 0;
                k += 1;
            }
        }
    } else {
        let mut out = vec![];
        for _ in 0..limit {
            out.push((0..nq).map(|_| u[rng.below(u.len())].clone()).collect());
        }
        (out, false)
    }
}
