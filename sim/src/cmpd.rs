//! The two compound term types of the harness, declared with the repository's `#[compound]`
//! attribute macro (so the macro-generated CompoundObject / walk / hash / eq code is the real one).
use crate::simuser::{Eng, PTerm, SimUser};
use proto_vulcan::lterm::LTermInner;
use proto_vulcan::prelude::*;

#[compound]
pub struct Pair(LTerm, LTerm);

#[compound]
pub struct Duo(LTerm, LTerm);

pub fn make(kind: u8, a: PTerm, b: PTerm) -> PTerm {
    if kind == 0 {
        Into::<PTerm>::into(Pair_compound::_InnerPair::<SimUser, Eng>(a, b))
    } else {
        Into::<PTerm>::into(Duo_compound::_InnerDuo::<SimUser, Eng>(a, b))
    }
}

/// (kind, fields) of a compound term of the harness; None for anything else.
pub fn parts(t: &PTerm) -> Option<(u8, Vec<PTerm>)> {
    match t.as_ref() {
        LTermInner::Compound(c) => {
            let kind = match c.type_name() {
                "Pair" => 0,
                "Duo" => 1,
                _ => return None,
            };
            let mut fields = Vec::new();
            for child in c.children() {
                fields.push(child.as_term()?.clone());
            }
            Some((kind, fields))
        }
        _ => None,
    }
}
