//! Names of the reach probes placed in /repo (hook H5). A probe missing from a run's counters
//! is reported under `zero_hit_probes`.
pub const ALL: &[&str] = &[];
