//! Driving the real `Solver` and `Stream` directly (public API), instead of through
//! `ResultIterator`: gives access to the user state of answer states and lets the harness clone a
//! suspended stream (fork) and drive both copies.
use crate::ast::*;
use crate::builder::{build_query_parts, row_of_state, user_snap, UserSnap};
use crate::driver::{Handle, SimCfg, Stats};
use crate::engine::{canon_row, classify_unwind_pub, EAnswer, End};
use crate::simuser::*;
use std::panic::{catch_unwind, AssertUnwindSafe};

pub struct StatesOut {
    /// answers of the main stream, in order
    pub answers: Vec<EAnswer>,
    /// user-state snapshot of every answer state (after reification)
    pub snaps: Vec<UserSnap>,
    /// when a fork was requested: the answers the forked copy produced from the fork point on
    pub fork_rest: Option<Vec<EAnswer>>,
    /// index in `answers` at which the fork was taken
    pub fork_at: usize,
    pub end: End,
    pub stats: Stats,
}

/// Run `p` to exhaustion (at most `max` answers). With `fork_after = Some(k)` the suspended
/// stream is cloned after k answers; the original is driven to the end first, then the copy.
pub fn run_states(p: &Program, cfg: &SimCfg, max: usize, fork_after: Option<usize>) -> StatesOut {
    crate::builder::OBSERVED.with(|o| o.borrow_mut().clear());
    crate::builder::OBSERVED_USER.with(|o| o.borrow_mut().clear());
    crate::builder::PROBE_LOG.with(|o| o.borrow_mut().clear());
    crate::builder::PROBES_RUN.with(|o| o.set(0));
    let handle = Handle::install(cfg, false);
    let h2 = handle.clone();
    let mut answers = vec![];
    let mut snaps = vec![];
    let mut fork_rest: Option<Vec<EAnswer>> = None;
    let mut fork_at = 0usize;
    let res = catch_unwind(AssertUnwindSafe(|| {
        let (qvars, goal) = build_query_parts(p);
        let mut solver = PSolver::new((), false);
        let mut stream = solver.start(&goal, PState::new(SimUser::default()));
        let mut forked: Option<PStream> = None;
        let mut end = End::Limit;
        loop {
            if let Some(k) = fork_after {
                if forked.is_none() && answers.len() == k {
                    forked = Some(stream.clone());
                    fork_at = k;
                }
            }
            if answers.len() >= max {
                break;
            }
            match solver.next(&mut stream) {
                Some(state) => {
                    h2.set_armed(false);
                    snaps.push(user_snap(&state));
                    answers.push(canon_row(&row_of_state(&state, &qvars)));
                    h2.set_armed(true);
                }
                None => {
                    end = End::Exhausted;
                    break;
                }
            }
        }
        if let Some(mut copy) = forked {
            let mut solver2 = PSolver::new((), false);
            let mut rest = vec![];
            while rest.len() < max {
                match solver2.next(&mut copy) {
                    Some(state) => {
                        h2.set_armed(false);
                        rest.push(canon_row(&row_of_state(&state, &qvars)));
                        h2.set_armed(true);
                    }
                    None => break,
                }
            }
            fork_rest = Some(rest);
        }
        end
    }));
    let end = match res {
        Ok(e) => e,
        Err(payload) => classify_unwind_pub(payload),
    };
    let stats = handle.finish();
    StatesOut { answers, snaps, fork_rest, fork_at, end, stats }
}

/// Drive the SEARCH itself — the engine's own `step`, without `Solver::next` or `ResultIterator`
/// — and record after how many scheduling quanta its k-th answer has matured (k = 1..=max).
/// This is the "search yields n answers after finitely many steps" side of the laziness clause;
/// what the consumer then needs on top of it is the other side.
pub fn raw_search(p: &Program, cfg: &SimCfg, max: usize) -> (Vec<u64>, End, Stats) {
    use proto_vulcan::engine::Engine;
    use proto_vulcan::stream::{LazyStream, Stream};
    let handle = Handle::install(cfg, false);
    let h2 = handle.clone();
    let mut at: Vec<u64> = vec![];
    let res = catch_unwind(AssertUnwindSafe(|| {
        let (_qvars, goal) = build_query_parts(p);
        let solver = PSolver::new((), false);
        let engine = Eng::new();
        let mut stream = solver.start(&goal, PState::new(SimUser::default()));
        loop {
            if at.len() >= max {
                return End::Limit;
            }
            match stream {
                Stream::Empty => return End::Exhausted,
                Stream::Unit(_) => {
                    at.push(h2.quanta());
                    return End::Exhausted;
                }
                Stream::Lazy(LazyStream(lazy)) => stream = engine.step(&solver, *lazy),
                Stream::Cons(_, lazy) => {
                    at.push(h2.quanta());
                    stream = Stream::Lazy(lazy);
                }
            }
        }
    }));
    let end = match res {
        Ok(e) => e,
        Err(payload) => classify_unwind_pub(payload),
    };
    let stats = handle.finish();
    (at, end, stats)
}
