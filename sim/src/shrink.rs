//! Generic structural shrinking over the JSON form of a case. Candidates that do not
//! deserialise back into a `Case` (wrong arity, wrong type) are dropped here; candidates that
//! break a check's well-formedness rules are dropped by `Check::valid`.
use crate::framework::Case;
use serde_json::{json, Value};

fn paths(v: &Value, cur: &mut Vec<PathSeg>, out: &mut Vec<Vec<PathSeg>>) {
    out.push(cur.clone());
    match v {
        Value::Array(a) => {
            for (i, x) in a.iter().enumerate() {
                cur.push(PathSeg::Idx(i));
                paths(x, cur, out);
                cur.pop();
            }
        }
        Value::Object(o) => {
            for (k, x) in o.iter() {
                cur.push(PathSeg::Key(k.clone()));
                paths(x, cur, out);
                cur.pop();
            }
        }
        _ => {}
    }
}

#[derive(Clone, Debug)]
enum PathSeg {
    Idx(usize),
    Key(String),
}

fn get<'a>(v: &'a Value, p: &[PathSeg]) -> &'a Value {
    let mut cur = v;
    for s in p {
        cur = match s {
            PathSeg::Idx(i) => &cur[*i],
            PathSeg::Key(k) => &cur[k.as_str()],
        };
    }
    cur
}

fn set(v: &mut Value, p: &[PathSeg], new: Value) {
    let mut cur = v;
    for s in p {
        cur = match s {
            PathSeg::Idx(i) => &mut cur[*i],
            PathSeg::Key(k) => &mut cur[k.as_str()],
        };
    }
    *cur = new;
}

fn descendants(v: &Value, depth: usize, out: &mut Vec<Value>) {
    if depth == 0 {
        return;
    }
    match v {
        Value::Array(a) => {
            for x in a {
                out.push(x.clone());
                descendants(x, depth - 1, out);
            }
        }
        Value::Object(o) => {
            for (_, x) in o {
                out.push(x.clone());
                descendants(x, depth - 1, out);
            }
        }
        _ => {}
    }
}

fn size(v: &Value) -> usize {
    match v {
        Value::Array(a) => 1 + a.iter().map(size).sum::<usize>(),
        Value::Object(o) => 1 + o.values().map(size).sum::<usize>(),
        Value::Number(n) => 1 + (n.as_i64().unwrap_or(0).unsigned_abs() as usize).min(8),
        _ => 1,
    }
}

fn subtree_candidates(root: &Value) -> Vec<Value> {
    let mut all_paths = vec![];
    paths(root, &mut vec![], &mut all_paths);
    // shallow edits first: they remove the most
    all_paths.sort_by_key(|p| p.len());
    let mut out = vec![];
    let simple = [
        json!("Succeed"),
        json!("Fail"),
        json!("Nil"),
        json!({"I": 0}),
        json!("Chain"),
        json!("End"),
        json!("Identity"),
        Value::Null,
    ];
    for p in all_paths.iter() {
        let node = get(root, p);
        match node {
            Value::Array(a) => {
                for i in 0..a.len() {
                    let mut b = a.clone();
                    b.remove(i);
                    let mut r = root.clone();
                    set(&mut r, p, Value::Array(b));
                    out.push(r);
                }
            }
            Value::Number(n) => {
                if let Some(x) = n.as_i64() {
                    let mut alts = vec![];
                    if x != 0 {
                        alts.push(0);
                        alts.push(x / 2);
                        alts.push(x - x.signum());
                    }
                    alts.dedup();
                    for a in alts {
                        if a != x {
                            let mut r = root.clone();
                            set(&mut r, p, json!(a));
                            out.push(r);
                        }
                    }
                }
            }
            _ => {}
        }
        if p.is_empty() {
            continue;
        }
        if matches!(node, Value::Object(_) | Value::String(_) | Value::Array(_)) {
            for s in simple.iter() {
                if s != node && size(s) < size(node) {
                    let mut r = root.clone();
                    set(&mut r, p, s.clone());
                    out.push(r);
                }
            }
            // hoist a descendant into this position
            let mut ds = vec![];
            descendants(node, 4, &mut ds);
            for d in ds {
                if matches!(d, Value::Object(_) | Value::String(_)) && size(&d) < size(node) {
                    let mut r = root.clone();
                    set(&mut r, p, d);
                    out.push(r);
                }
            }
        }
    }
    out
}

pub fn case_candidates(case: &Case) -> Vec<Case> {
    let base = serde_json::to_value(case).unwrap();
    let mut out = vec![];
    let mut seen = std::collections::HashSet::new();
    for field in ["program", "cfg", "extra"] {
        let sub = base[field].clone();
        if sub.is_null() {
            continue;
        }
        let cands = if field == "cfg" {
            // only the perturbation knobs shrink; budgets stay, or a repaired tree could not
            // finish the replay
            let mut v = vec![];
            for (key, simple) in [
                ("policy", json!("Identity")),
                ("site_ratio", json!(0)),
                ("yield_rate", json!(0)),
                ("yield_sites", json!(0)),
            ] {
                if sub[key] != simple {
                    let mut c = sub.clone();
                    c[key] = simple;
                    v.push(c);
                }
            }
            if let Some(bits) = sub["yield_sites"].as_u64() {
                for b in 0..4 {
                    if bits & (1 << b) != 0 && bits != (1 << b) {
                        let mut c = sub.clone();
                        c["yield_sites"] = json!(bits & !(1 << b));
                        v.push(c);
                    }
                }
            }
            v
        } else {
            subtree_candidates(&sub)
        };
        for cand in cands {
            let mut full = base.clone();
            full[field] = cand;
            if let Ok(c) = serde_json::from_value::<Case>(full) {
                if &c != case {
                    let key = serde_json::to_string(&c).unwrap();
                    if seen.insert(key) {
                        out.push(c);
                    }
                }
            }
        }
    }
    out
}
