//! Syntactic classes of known findings (see /verif/known_findings.json). A generated case that
//! falls into a listed class is regenerated, so that no unlisted variant of a known defect can
//! surface under another VERIF_SEED; the reproducers in /verif/findings are the only members run.
use crate::ast::*;

/// Known-finding class of a CLP(FD) program for the soundness/completeness checks, if any.
pub fn fd_known_class(_p: &Program) -> Option<String> {
    None
}

pub fn count_fd_constraints(p: &Program) -> usize {
    fn visit(g: &G) -> usize {
        let own = match g {
            G::Ltefd(..) | G::Plusfd(..) | G::Minusfd(..) | G::Timesfd(..) | G::Diseqfd(..) | G::Distinctfd(..) => 1,
            G::Ltfd(..) => 2,
            _ => 0,
        };
        own + g.children().iter().map(|c| visit(c)).sum::<usize>()
    }
    p.body.iter().map(visit).sum()
}

/// C09: the *order* in which a CLP(FD) program's answers come out depends on the order in which
/// pending constraints are re-run (one pass per binding, no fixpoint), because differently
/// pruned domains change the shape of the interleaved labeling search. Class: two or more
/// finite-domain constraints in the program.
pub fn fd_order_class(p: &Program) -> Option<String> {
    if count_fd_constraints(p) >= 2 {
        Some("fd-answer-order-depends-on-propagation-order".into())
    } else {
        None
    }
}
