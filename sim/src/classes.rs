//! Syntactic classes of known findings (see /verif/known_findings.json). A generated case that
//! falls into a listed class is regenerated, so that no unlisted variant of a known defect can
//! surface under another VERIF_SEED; the reproducers in /verif/findings are the only members run.
use crate::ast::*;

/// Known-finding class of a CLP(FD) program for the soundness/completeness checks, if any.
pub fn fd_known_class(_p: &Program) -> Option<String> {
    None
}

pub fn count_fd_constraints(p: &Program) -> usize {
    fn visit(g: &G) -> usize {
        let own = match g {
            G::Ltefd(..) | G::Plusfd(..) | G::Minusfd(..) | G::Timesfd(..) | G::Diseqfd(..) | G::Distinctfd(..) => 1,
            G::Ltfd(..) => 2,
            _ => 0,
        };
        own + g.children().iter().map(|c| visit(c)).sum::<usize>()
    }
    p.body.iter().map(visit).sum()
}

/// C09: a finite-domain variable that is not part of the query term is labeled under `onceo`
/// in the iteration order of the domain store; a tree disequality (`!=`) mentioning such a
/// variable makes the chosen witness visible in the answer's constraints, which then differ
/// between hash orders. Class: a program that gives domains to variables and also posts a tree
/// disequality.
pub fn fd_neq_class(p: &Program) -> Option<String> {
    let has_dom = p.any(|g| matches!(g, G::Dom(..) | G::DomRange(..)));
    let has_neq = p.any(|g| matches!(g, G::Neq(..)));
    if has_dom && has_neq {
        Some("fd-hidden-label-visible-through-disequality".into())
    } else {
        None
    }
}

/// C09: the *order* in which a CLP(FD) program's answers come out depends on the order in which
/// pending constraints are re-run (one pass per binding, no fixpoint), because differently
/// pruned domains change the shape of the interleaved labeling search. Class: two or more
/// finite-domain constraints in the program.
pub fn fd_order_class(p: &Program) -> Option<String> {
    if count_fd_constraints(p) >= 2 {
        Some("fd-answer-order-depends-on-propagation-order".into())
    } else {
        None
    }
}
