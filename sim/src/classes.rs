//! Syntactic classes of known findings (see /verif/known_findings.json). A generated case that
//! falls into a listed class is regenerated, so that no unlisted variant of a known defect can
//! surface under another VERIF_SEED; the reproducers in /verif/findings are the only members run.
use crate::ast::*;

/// Known-finding class of a CLP(FD) program, if any.
pub fn fd_known_class(_p: &Program) -> Option<String> {
    None
}
