//! Generator of search programs: goal trees over ==, fresh, conj, conde/disj, closures, for,
//! library relations, program-defined recursive relations and simulated leaves.
use crate::ast::*;
use crate::driver::{Policy, SimCfg};
use crate::rng::Rng;

#[derive(Clone, Debug)]
pub struct Opts {
    pub max_depth: u32,
    pub max_width: u32,
    pub leaves: bool,
    pub calls: bool,
    pub defs: bool,
    pub for_loops: bool,
    /// allow Tail::Stall / Tail::Flood / Anyo / Always / Never
    pub infinite: bool,
    pub committed: bool,
    pub dfs_blocks: bool,
    pub neq: bool,
    pub max_leaf_answers: u32,
    pub max_latency: u8,
    /// no list terms anywhere
    pub atoms_only: bool,
}

impl Opts {
    pub fn finite_small() -> Opts {
        Opts {
            max_depth: 3,
            max_width: 3,
            leaves: true,
            calls: true,
            defs: true,
            for_loops: true,
            infinite: false,
            committed: false,
            dfs_blocks: true,
            neq: false,
            max_leaf_answers: 4,
            max_latency: 6,
            atoms_only: false,
        }
    }
}

pub struct Gen<'a> {
    pub w: &'a mut Rng,
    pub l: &'a mut Rng,
    pub o: Opts,
    next_var: u32,
    next_leaf: u32,
    ndefs: u32,
}

const ATOMS: [i64; 4] = [0, 1, 2, 3];

impl<'a> Gen<'a> {
    pub fn new(w: &'a mut Rng, l: &'a mut Rng, o: Opts) -> Gen<'a> {
        Gen {
            w,
            l,
            o,
            next_var: 0,
            next_leaf: 0,
            ndefs: 0,
        }
    }

    pub fn fresh_var(&mut self) -> VarIx {
        let v = self.next_var;
        self.next_var += 1;
        v
    }

    fn atom(&mut self) -> T {
        if self.o.atoms_only {
            return match self.w.below(6) {
                0 => T::S("a".into()),
                1 => T::B(true),
                _ => T::I(*self.w.pick(&ATOMS)),
            };
        }
        match self.w.below(8) {
            0 => T::S("a".into()),
            1 => T::B(true),
            2 => T::Nil,
            _ => T::I(*self.w.pick(&ATOMS)),
        }
    }

    pub fn var_or_atom(&mut self, scope: &[VarIx]) -> T {
        if !scope.is_empty() && self.w.chance(3, 5) {
            T::V(*self.w.pick(scope))
        } else {
            self.atom()
        }
    }

    pub fn term(&mut self, scope: &[VarIx], depth: u32) -> T {
        if depth == 0 || self.o.atoms_only || self.w.chance(3, 5) {
            return self.var_or_atom(scope);
        }
        if self.w.chance(1, 10) {
            // a `#[compound]` term (Pair / Duo): unified, walked and reified by the code the
            // attribute macro generates, not by the list code
            let kind = self.w.below(2) as u8;
            let a = self.term(scope, depth - 1);
            let b = self.term(scope, depth - 1);
            return T::cmp(kind, a, b);
        }
        let n = self.w.below(4);
        let items: Vec<T> = (0..n).map(|_| self.term(scope, depth - 1)).collect();
        if n > 0 && self.w.chance(1, 5) {
            let tail = self.var_or_atom(scope);
            T::improper(items, tail)
        } else {
            T::list(items)
        }
    }

    pub fn proper_list(&mut self, scope: &[VarIx], max_len: usize) -> T {
        let n = self.w.below(max_len + 1);
        let items: Vec<T> = (0..n).map(|_| self.var_or_atom(scope)).collect();
        T::list(items)
    }

    pub fn leaf(&mut self, scope: &[VarIx], allow_infinite: bool) -> Leaf {
        let id = self.next_leaf;
        self.next_leaf += 1;
        let target = if scope.is_empty() {
            self.atom()
        } else if self.w.chance(4, 5) {
            T::V(*self.w.pick(scope))
        } else {
            self.term(scope, 1)
        };
        let n = self.l.below(self.o.max_leaf_answers as usize + 1);
        let mut answers = vec![];
        let tagged = self.l.chance(1, 2);
        for i in 0..n {
            let value = if tagged {
                T::I(1000 + 10 * id as i64 + i as i64)
            } else if self.l.chance(1, 4) && !answers.is_empty() {
                // duplicate answer: multiset semantics must keep both
                let k = self.l.below(answers.len());
                let prev: &LeafAns = &answers[k];
                prev.value.clone()
            } else if self.l.chance(1, 4) {
                self.term(scope, 1)
            } else {
                self.atom()
            };
            let latency = if self.l.chance(1, 2) {
                0
            } else {
                self.l.below(self.o.max_latency as usize + 1) as u8
            };
            answers.push(LeafAns { value, latency });
        }
        let shape = match self.l.below(4) {
            0 => Shape::Pauses,
            1 => Shape::Iter,
            _ => Shape::Chain,
        };
        let tail = if allow_infinite && self.l.chance(1, 3) {
            if self.l.chance(1, 2) {
                Tail::Stall
            } else {
                Tail::Flood
            }
        } else {
            Tail::End
        };
        let end_latency = if self.l.chance(1, 3) {
            self.l.below(self.o.max_latency as usize + 1) as u8
        } else {
            0
        };
        Leaf {
            id,
            target,
            answers,
            shape,
            tail,
            end_latency,
        }
    }

    /// A recursive relation walking a proper list: base clause on [], step clause on [h | t].
    pub fn def(&mut self) -> Def {
        // params: 0 = accumulator/out, 1 = list
        let h = 10;
        let t = 11;
        let mut base = vec![G::Eq(T::V(1), T::Nil)];
        if self.w.chance(1, 2) {
            let a = self.atom();
            base.push(G::Eq(T::V(0), a));
        }
        let mut step = vec![G::Eq(T::V(1), T::cons(T::V(h), T::V(t)))];
        let self_ix = self.ndefs;
        let mut extra = vec![];
        match self.w.below(4) {
            0 => extra.push(G::Eq(T::V(0), T::V(h))),
            1 => {
                let lf = self.leaf(&[0, h], false);
                extra.push(G::Leaf(lf));
            }
            2 => extra.push(G::Conde(vec![
                vec![G::Eq(T::V(0), T::V(h))],
                vec![G::CallDef(self_ix, vec![T::V(0), T::V(t)])],
            ])),
            _ => {}
        }
        let rec = G::CallDef(self_ix, vec![T::V(0), T::V(t)]);
        let has_rec_already = extra.iter().any(|g| matches!(g, G::Conde(_)));
        if self.w.chance(1, 2) {
            step.extend(extra);
            if !has_rec_already {
                step.push(rec);
            }
        } else {
            if !has_rec_already {
                step.push(rec);
            }
            step.extend(extra);
        }
        let clauses = if self.w.chance(1, 2) {
            vec![base, vec![G::Fresh(vec![h, t], step)]]
        } else {
            vec![vec![G::Fresh(vec![h, t], step)], base]
        };
        self.ndefs += 1;
        Def {
            params: vec![0, 1],
            body: vec![G::Conde(clauses)],
        }
    }

    pub fn goals(&mut self, scope: &[VarIx], depth: u32, dfs: bool, n: usize) -> Vec<G> {
        (0..n).map(|_| self.goal(scope, depth, dfs)).collect()
    }

    fn width(&mut self) -> usize {
        1 + self.w.below(self.o.max_width as usize)
    }

    pub fn goal_committed(&mut self, scope: &[VarIx], depth: u32) -> G {
        self.committed(scope, depth)
    }

    fn committed(&mut self, scope: &[VarIx], depth: u32) -> G {
        let kind = self.w.below(3);
        let head = |g: &mut Self, allow_flood: bool| -> G {
            let r = g.w.below(10);
            if r < 5 {
                let mut lf = g.leaf(scope, false);
                if allow_flood && !lf.answers.is_empty() && g.l.chance(1, 3) {
                    lf.tail = Tail::Flood;
                }
                G::Leaf(lf)
            } else if r < 7 {
                let k = 1 + g.w.below(2);
                G::Dfs(g.goals(scope, depth.saturating_sub(1).min(1), true, k))
            } else {
                g.goal(scope, depth.saturating_sub(1).min(1), false)
            }
        };
        if kind == 2 {
            let k = 1 + self.w.below(2);
            let mut gs = vec![head(self, k == 1)];
            for _ in 1..k {
                gs.push(self.goal(scope, 0, false));
            }
            return G::Onceo(gs);
        }
        let n = 1 + self.w.below(3);
        let mut cs = vec![];
        for _ in 0..n {
            let mut c = vec![head(self, kind == 1)];
            let k = self.w.below(3);
            for _ in 0..k {
                c.push(self.goal(scope, depth.saturating_sub(1).min(1), false));
            }
            cs.push(c);
        }
        if kind == 0 {
            G::Conda(cs)
        } else {
            G::Condu(cs)
        }
    }

    pub fn goal(&mut self, scope: &[VarIx], depth: u32, dfs: bool) -> G {
        if self.o.committed && !dfs && depth > 0 && self.w.chance(1, 4) {
            return self.committed(scope, depth);
        }
        let leafy = depth == 0;
        let roll = self.w.below(100);
        if leafy || roll < 30 {
            // atomic goals
            let r = self.w.below(100);
            if r < 40 {
                let a = self.var_or_atom(scope);
                let b = self.term(scope, 2);
                if self.w.chance(1, 2) {
                    G::Eq(a, b)
                } else {
                    G::Eq(b, a)
                }
            } else if r < 48 && self.o.neq {
                let a = self.var_or_atom(scope);
                let b = self.term(scope, 1);
                G::Neq(a, b)
            } else if r < 75 && self.o.leaves {
                let inf = self.o.infinite && !dfs;
                let lf = self.leaf(scope, inf);
                G::Leaf(lf)
            } else if r < 88 && self.o.calls {
                match self.w.below(if self.o.neq { 9 } else { 6 }) {
                    0 | 1 => {
                        let x = self.var_or_atom(scope);
                        let l = self.proper_list(scope, 3);
                        G::Call(Rel::Member, vec![x, l])
                    }
                    5 => {
                        // first / rest / empty of a list
                        let l = self.proper_list(scope, 3);
                        let x = self.var_or_atom(scope);
                        match self.w.below(3) {
                            0 => G::Call(Rel::First, vec![l, x]),
                            1 => G::Call(Rel::Rest, vec![l, x]),
                            _ => G::Call(Rel::Empty, vec![x]),
                        }
                    }
                    6 => {
                        // relations that post disequalities (only where the check compares them)
                        let l = self.proper_list(scope, 4);
                        G::Call(Rel::Distinct, vec![l])
                    }
                    7 => {
                        let x = self.var_or_atom(scope);
                        let l = self.proper_list(scope, 3);
                        G::Call(Rel::Member1, vec![x, l])
                    }
                    8 => {
                        let x = self.var_or_atom(scope);
                        let l = self.proper_list(scope, 3);
                        let out = self.var_or_atom(scope);
                        G::Call(Rel::Rember, vec![x, l, out])
                    }
                    2 => {
                        let a = self.proper_list(scope, 2);
                        let b = self.term(scope, 1);
                        let c = self.var_or_atom(scope);
                        G::Call(Rel::Append, vec![a, b, c])
                    }
                    3 => {
                        let a = self.var_or_atom(scope);
                        let b = self.var_or_atom(scope);
                        let c = self.proper_list(scope, 3);
                        G::Call(Rel::Append, vec![a, b, c])
                    }
                    _ => {
                        let a = self.var_or_atom(scope);
                        let b = self.var_or_atom(scope);
                        let c = self.var_or_atom(scope);
                        G::Call(Rel::ConsR, vec![a, b, c])
                    }
                }
            } else if r < 94 && self.ndefs > 0 {
                let ix = self.w.below(self.ndefs as usize) as u32;
                let x = self.var_or_atom(scope);
                let l = self.proper_list(scope, 3);
                G::CallDef(ix, vec![x, l])
            } else if r < 97 {
                G::Succeed
            } else {
                G::Fail
            }
        } else if roll < 55 {
            // 1..5 clauses: 2 and 3 are the common case, 1, 4 and 5 the corners
            let n = match self.w.below(10) {
                // a disjunction without clauses (it fails) once in a while, else a single clause
                0 if self.w.chance(1, 6) => 0,
                0 => 1,
                1 | 2 => 4,
                3 => 5,
                4 | 5 | 6 => 3,
                _ => 2,
            };
            let cs = (0..n)
                .map(|_| {
                    let k = self.width().min(2);
                    self.goals(scope, depth - 1, dfs, k)
                })
                .collect();
            G::Conde(cs)
        } else if roll < 62 {
            let a = self.goal(scope, depth - 1, dfs);
            let b = self.goal(scope, depth - 1, dfs);
            G::Disj(Box::new(a), Box::new(b))
        } else if roll < 77 {
            let nv = 1 + self.w.below(2);
            let vars: Vec<VarIx> = (0..nv).map(|_| self.fresh_var()).collect();
            let mut s2 = scope.to_vec();
            s2.extend(vars.iter().cloned());
            let k = self.width();
            let body = self.goals(&s2, depth - 1, dfs, k);
            G::Fresh(vars, body)
        } else if roll < 85 {
            let k = 1 + self.width().min(2);
            G::Conj(self.goals(scope, depth - 1, dfs, k))
        } else if roll < 90 {
            let k = self.width().min(2);
            G::Closure(self.goals(scope, depth - 1, dfs, k))
        } else if roll < 94 && self.o.for_loops {
            let x = self.fresh_var();
            let n = self.w.below(3);
            let mut coll: Vec<T> = (0..n).map(|_| self.var_or_atom(scope)).collect();
            if !coll.is_empty() && self.w.chance(1, 3) {
                // equal elements: each iteration still gets its own body
                let e = self.w.pick(&coll).clone();
                coll.push(e);
            }
            let mut s2 = scope.to_vec();
            s2.push(x);
            let k = self.width().min(2);
            let body = self.goals(&s2, depth - 1, dfs, k);
            G::For(x, coll, body)
        } else if roll < 98 && self.o.dfs_blocks && !dfs {
            let k = self.width();
            G::Dfs(self.goals(scope, depth - 1, true, k))
        } else {
            self.goal(scope, 0, dfs)
        }
    }

    /// A whole search program.
    pub fn program(&mut self, dfs_root: bool) -> Program {
        let nq = 1 + self.w.below(2) as u32;
        self.next_var = nq;
        let mut defs = vec![];
        if self.o.defs && self.w.chance(1, 3) {
            self.next_var = 20; // keep clear of the def-local indices
            defs.push(self.def());
        }
        let scope: Vec<VarIx> = (0..nq).collect();
        let depth = 1 + self.w.below(self.o.max_depth as usize) as u32;
        let k = self.width();
        let body = self.goals(&scope, depth, dfs_root, k);
        Program { nq, defs, body }
    }
}

/// Swarm-style schedule configuration.
pub fn sim_cfg(s: &mut Rng, quanta_budget: u64) -> SimCfg {
    let policy = match s.below(8) {
        0 => Policy::Identity,
        1 => Policy::Reverse,
        2 => Policy::Rotate(1 + s.below(3) as u32),
        3 | 4 => Policy::Keyed,
        5 => Policy::Stable,
        _ => Policy::Fresh,
    };
    let site_ratio = *s.pick(&[0u8, 8, 16, 16]);
    let yield_rate = *s.pick(&[0u8, 0, 1, 4, 8]);
    let yield_sites = if yield_rate == 0 { 0 } else { 1 + s.below(15) as u8 };
    SimCfg {
        policy,
        seed: s.next_u64(),
        site_ratio,
        yield_rate,
        yield_sites,
        quanta_budget,
        work_cap: quanta_budget.saturating_mul(64),
        explicit_orders: None,
        explicit_yields: None,
    }
}
