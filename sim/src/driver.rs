//! The simulator side of the seam in /repo/src/verif_sim.rs: iteration-order policies, the
//! step clock and budgets, cooperative yields, probes and the decision trace.
use crate::rng::{mix, Rng};
use proto_vulcan::verif_sim::{self, BudgetExceeded, SimDriver};
use serde::{Deserialize, Serialize};
use std::cell::RefCell;
use std::collections::{BTreeMap, HashMap};
use std::panic::Location;
use std::rc::Rc;

#[derive(Clone, Copy, Debug, PartialEq, Eq, Hash, Serialize, Deserialize)]
pub enum Policy {
    Identity,
    Reverse,
    Rotate(u32),
    /// permutation = PRF(seed, site, n): stateless, the same order at the same logical point
    Keyed,
    /// random priority drawn at insert, kept across clones (closest to a real hash table)
    Stable,
    /// new permutation for every iteration (strongest adversary)
    Fresh,
}

#[derive(Clone, Debug, PartialEq, Eq, Hash, Serialize, Deserialize)]
pub struct SimCfg {
    pub policy: Policy,
    pub seed: u64,
    /// Reordering applies at a site iff PRF(seed, site) % 16 < site_ratio.
    pub site_ratio: u8,
    /// A goal start yields iff its site is enabled and PRF(seed, k) % 16 < yield_rate (k = call index).
    pub yield_rate: u8,
    /// Bit i enables yield site i (0 Goal::solve, 1 DFSGoal::solve, 2 Solver::start, 3 start_dfs).
    pub yield_sites: u8,
    pub quanta_budget: u64,
    pub work_cap: u64,
    /// Minimised replay: explicit order per `order` call index (None entry = identity). When
    /// present the policy is ignored.
    #[serde(default)]
    pub explicit_orders: Option<Vec<Option<Vec<u32>>>>,
    /// Minimised replay: indices of the `yield_here` calls that yield. When present the rate is ignored.
    #[serde(default)]
    pub explicit_yields: Option<Vec<u64>>,
}

impl SimCfg {
    pub fn exact(quanta_budget: u64) -> SimCfg {
        SimCfg {
            policy: Policy::Identity,
            seed: 0,
            site_ratio: 0,
            yield_rate: 0,
            yield_sites: 0,
            quanta_budget,
            work_cap: quanta_budget.saturating_mul(64),
            explicit_orders: None,
            explicit_yields: None,
        }
    }

    pub fn is_exact(&self) -> bool {
        let no_reorder = match &self.explicit_orders {
            Some(v) => v.iter().all(|o| o.is_none()),
            None => self.policy == Policy::Identity || self.site_ratio == 0,
        };
        let no_yield = match &self.explicit_yields {
            Some(v) => v.is_empty(),
            None => self.yield_rate == 0 || self.yield_sites == 0,
        };
        no_reorder && no_yield
    }
}

#[derive(Clone, Debug, Default)]
pub struct Stats {
    pub quanta: u64,
    pub work: u64,
    /// One engine step started more than MAX_STARTS_PER_STEP goals without returning.
    pub runaway_step: bool,
    pub step_kinds: [u64; 8],
    pub order_calls: u64,
    pub reorders_fired: u64,
    pub reorder_by_site: BTreeMap<String, u64>,
    pub yield_calls: u64,
    pub yields_fired: u64,
    pub yields_by_site: [u64; 4],
    pub inserts: u64,
    pub probes: BTreeMap<&'static str, u64>,
    pub trace_hash: u64,
    /// Recorded decisions (only when `record` is on).
    pub orders: Vec<Option<Vec<u32>>>,
    pub yields: Vec<u64>,
}

pub struct Inner {
    cfg: SimCfg,
    rng: Rng,
    record: bool,
    site_cache: HashMap<usize, (u64, bool, String)>,
    pub stats: Stats,
    /// When false the budget is not enforced (used while the harness itself touches stores).
    pub armed: bool,
    /// Goal starts (cooperative yield points passed) since the last engine step was entered.
    starts_since_step: u64,
}

#[derive(Clone)]
pub struct Handle(pub Rc<RefCell<Inner>>);

/// See `yield_here`.
const MAX_STARTS_PER_STEP: u64 = 200_000;

struct Driver(Rc<RefCell<Inner>>);

impl Inner {
    fn site(&mut self, loc: &'static Location<'static>) -> (u64, bool, &str) {
        let key = loc as *const _ as usize;
        let seed = self.cfg.seed;
        let ratio = self.cfg.site_ratio;
        let e = self.site_cache.entry(key).or_insert_with(|| {
            // Only the path below src/ matters: the absolute prefix must not leak into hashes.
            let file = loc.file();
            let short = match file.rfind("/src/") {
                Some(i) => &file[i + 1..],
                None => file,
            };
            let name = format!("{}:{}", short, loc.line());
            let h = crate::rng::hash_str(&name);
            let enabled = (mix(&[seed, h, 0x51]) % 16) < ratio as u64;
            (h, enabled, name)
        });
        (e.0, e.1, e.2.as_str())
    }
}

impl SimDriver for Driver {
    fn order(
        &mut self,
        site: &'static Location<'static>,
        n: usize,
        prios: &[u64],
    ) -> Option<Vec<usize>> {
        let mut guard = self.0.borrow_mut();
        let inner = &mut *guard;
        let call = inner.stats.order_calls;
        inner.stats.order_calls += 1;
        let (sitehash, enabled, _) = inner.site(site);

        let perm: Option<Vec<usize>> = if let Some(explicit) = &inner.cfg.explicit_orders {
            match explicit.get(call as usize) {
                Some(Some(p)) if p.len() == n => Some(p.iter().map(|x| *x as usize).collect()),
                _ => None,
            }
        } else if !enabled {
            None
        } else {
            match inner.cfg.policy {
                Policy::Identity => None,
                Policy::Reverse => Some((0..n).rev().collect()),
                Policy::Rotate(k) => {
                    let k = (k as usize) % n;
                    if k == 0 {
                        None
                    } else {
                        Some((0..n).map(|i| (i + k) % n).collect())
                    }
                }
                Policy::Keyed => {
                    let mut r = Rng::new(mix(&[inner.cfg.seed, sitehash, n as u64]));
                    Some(r.permutation(n))
                }
                Policy::Stable => {
                    let mut idx: Vec<usize> = (0..n).collect();
                    idx.sort_by_key(|i| (prios[*i], *i));
                    Some(idx)
                }
                Policy::Fresh => Some(inner.rng.permutation(n)),
            }
        };
        let perm = match perm {
            Some(p) if p.iter().enumerate().any(|(i, x)| i != *x) => Some(p),
            _ => None,
        };
        if let Some(p) = &perm {
            inner.stats.reorders_fired += 1;
            let name = inner.site(site).2.to_string();
            *inner.stats.reorder_by_site.entry(name).or_insert(0) += 1;
            let mut words = vec![inner.stats.trace_hash, sitehash, n as u64];
            words.extend(p.iter().map(|x| *x as u64));
            inner.stats.trace_hash = mix(&words);
        }
        if inner.record {
            inner
                .stats
                .orders
                .push(perm.as_ref().map(|p| p.iter().map(|x| *x as u32).collect()));
        }
        perm
    }

    fn on_insert(&mut self) -> u64 {
        let mut inner = self.0.borrow_mut();
        let k = inner.stats.inserts;
        inner.stats.inserts += 1;
        mix(&[inner.cfg.seed, k, 0x1257])
    }

    fn enter_step(&mut self, kind: u8, depth: usize) {
        let mut inner = self.0.borrow_mut();
        inner.stats.work += 1;
        inner.starts_since_step = 0;
        inner.stats.step_kinds[(kind & 7) as usize] += 1;
        if depth == 0 {
            inner.stats.quanta += 1;
        }
        if inner.armed {
            let over_q = inner.stats.quanta > inner.cfg.quanta_budget;
            let over_w = inner.stats.work > inner.cfg.work_cap;
            if over_q || over_w {
                let payload = BudgetExceeded {
                    quanta: inner.stats.quanta,
                    work: inner.stats.work,
                    work_cap: over_w && !over_q,
                };
                drop(inner);
                std::panic::panic_any(payload);
            }
        }
    }

    fn yield_here(&mut self, site: u8) -> bool {
        let mut inner = self.0.borrow_mut();
        // A step that keeps starting goals without ever entering another step or returning never
        // reaches the budget test of `enter_step`: bound it here. No operator starts anywhere near
        // this many goals inside one step (labeling and `for` start one per element).
        inner.starts_since_step += 1;
        if inner.armed && inner.starts_since_step > MAX_STARTS_PER_STEP {
            inner.stats.runaway_step = true;
            let payload = BudgetExceeded { quanta: inner.stats.quanta, work: u64::MAX, work_cap: true };
            drop(inner);
            std::panic::panic_any(payload);
        }
        let k = inner.stats.yield_calls;
        inner.stats.yield_calls += 1;
        let y = if let Some(explicit) = &inner.cfg.explicit_yields {
            explicit.contains(&k)
        } else {
            inner.cfg.yield_rate > 0
                && (inner.cfg.yield_sites >> (site & 3)) & 1 == 1
                && (mix(&[inner.cfg.seed, k, 0x7919]) % 16) < inner.cfg.yield_rate as u64
        };
        if y {
            inner.stats.yields_fired += 1;
            inner.stats.yields_by_site[(site & 3) as usize] += 1;
            inner.stats.trace_hash = mix(&[inner.stats.trace_hash, 0xABCD, k]);
            if inner.record {
                inner.stats.yields.push(k);
            }
        }
        y
    }

    fn probe(&mut self, id: &'static str, arg: u64) {
        let mut inner = self.0.borrow_mut();
        *inner.stats.probes.entry(id).or_insert(0) += 1;
        let _ = arg;
    }
}

thread_local! {
    /// When set, every driver installed on this thread records its decisions and hands them to
    /// `TRACES` when it is uninstalled (used by the minimiser to turn a seeded policy into an
    /// explicit decision list).
    static RECORD_ALL: std::cell::Cell<bool> = std::cell::Cell::new(false);
    static TRACES: RefCell<Vec<(Vec<Option<Vec<u32>>>, Vec<u64>)>> = RefCell::new(Vec::new());
}

pub fn set_record_all(on: bool) {
    RECORD_ALL.with(|r| r.set(on));
    TRACES.with(|t| t.borrow_mut().clear());
}

pub fn take_traces() -> Vec<(Vec<Option<Vec<u32>>>, Vec<u64>)> {
    TRACES.with(|t| std::mem::take(&mut *t.borrow_mut()))
}

impl Handle {
    /// Install a fresh driver for `cfg` on this thread.
    pub fn install(cfg: &SimCfg, record: bool) -> Handle {
        let record = record || RECORD_ALL.with(|r| r.get());
        let inner = Rc::new(RefCell::new(Inner {
            cfg: cfg.clone(),
            rng: Rng::new(mix(&[cfg.seed, 0xF4E5])),
            record,
            site_cache: HashMap::new(),
            stats: Stats::default(),
            armed: true,
            starts_since_step: 0,
        }));
        verif_sim::install(Box::new(Driver(inner.clone())));
        Handle(inner)
    }

    pub fn quanta(&self) -> u64 {
        self.0.borrow().stats.quanta
    }

    pub fn work(&self) -> u64 {
        self.0.borrow().stats.work
    }

    pub fn set_armed(&self, armed: bool) {
        self.0.borrow_mut().armed = armed;
    }

    /// Extend the quanta budget (used for "n more quanta" liveness windows).
    pub fn set_budget(&self, quanta: u64) {
        self.0.borrow_mut().cfg.quanta_budget = quanta;
    }

    /// Uninstall and return the statistics.
    pub fn finish(self) -> Stats {
        verif_sim::uninstall();
        let inner = self.0.borrow();
        if RECORD_ALL.with(|r| r.get()) {
            TRACES.with(|t| t.borrow_mut().push((inner.stats.orders.clone(), inner.stats.yields.clone())));
        }
        inner.stats.clone()
    }
}
