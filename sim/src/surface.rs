//! Surface corpus: programs written with the repository's own macros (compiled against the
//! current tree at check time), tagged with the property whose user-visible form they exercise.
//!
//! The generated programs of every check are built through the runtime API, i.e. *below* the
//! proc-macros. A change in `macros/` that breaks a property as users write it (`project |x, y|`,
//! `matcha` arms, `dfs { a, b }`, literal `true`/`false` clauses) is invisible there. Each entry
//! here has hand-listed expected answers (a sequence for depth-first entries, a multiset
//! otherwise) and runs under the same seeded schedules as the generated cases.
use crate::ast::T;
use crate::builder::{row_of_state, wrap_query_goal};
use crate::driver::{Handle, SimCfg, Stats};
use crate::engine::{canon_row, classify_unwind_pub, End};
use crate::framework::{CaseResult, Facts, Verdict};
use crate::simuser::*;
use proto_vulcan::operator::{cond, conda, condu, dfs, matcha, matchu, onceo};
use proto_vulcan::prelude::*;
use proto_vulcan::relation::{append, member};
use proto_vulcan::state::State;
use proto_vulcan::stream::Stream;
use std::rc::Rc;

/// Non-relational: needs numbers in `a`, `b` (as given, not walked) and unifies `out` with
/// `a * 10 + b`. Only `project` makes it usable on variables.
#[derive(Debug)]
struct Combine {
    a: PTerm,
    b: PTerm,
    out: PTerm,
}

impl Solve<SimUser, Eng> for Combine {
    fn solve(&self, _solver: &Solver<SimUser, Eng>, state: State<SimUser, Eng>) -> Stream<SimUser, Eng> {
        match (self.a.get_number(), self.b.get_number()) {
            (Some(a), Some(b)) => match state.unify(&LTerm::from(a * 10 + b), &self.out) {
                Ok(state) => Stream::unit(Box::new(state)),
                Err(_) => Stream::empty(),
            },
            _ => Stream::empty(),
        }
    }
}

fn combine(a: PTerm, b: PTerm, out: PTerm) -> PGoal {
    PGoal::dynamic(Rc::new(Combine { a, b, out }))
}

/// The same goal for depth-first blocks.
fn combined(a: PTerm, b: PTerm, out: PTerm) -> PDfsGoal {
    PDfsGoal::dynamic(Rc::new(Combine { a, b, out }))
}

// ---------------------------------------------------------------------------------- C11
fn proj_two(q: PTerm) -> PGoal {
    proto_vulcan!(|x, y| { x == 7, y == 3, project |x, y| { combine(x, y, q) } })
}

fn proj_three(q: PTerm) -> PGoal {
    proto_vulcan!(|x, y, z, t| {
        x == 1,
        y == 2,
        z == 3,
        project |x, y, z| { combine(x, y, t), combine(y, z, q) }
    })
}

fn proj_states(q: PTerm) -> PGoal {
    proto_vulcan!(|x, y| {
        member(x, [1, 2]),
        member(y, [3, 4]),
        project |x, y| { combine(x, y, q) }
    })
}

fn proj_later_goal(q: PTerm) -> PGoal {
    proto_vulcan!(|x, y, t| { x == 2, y == 5, project |x, y| { combine(x, y, t), combine(y, x, q) } })
}

fn proj_operator_inside(q: PTerm) -> PGoal {
    proto_vulcan!(|x, y| {
        x == 2,
        y == 5,
        project |x, y| { conde { combine(x, y, q), combine(y, x, q) } }
    })
}

fn proj_fresh_inside(q: PTerm) -> PGoal {
    proto_vulcan!(|x, y| { x == 4, y == 6, project |x, y| { |z| { z == 1, combine(x, y, q) } } })
}

fn proj_chain(q: PTerm) -> PGoal {
    proto_vulcan!(|x, y, z| { x == y, y == z, z == 8, project |x, z| { combine(x, z, q) } })
}

fn proj_dfs(q: PTerm) -> PGoal {
    proto_vulcan!(dfs { |x, y| { member(x, [1, 2]), member(y, [8, 9]), project |x, y| { combined(x, y, q) } } })
}

// ---------------------------------------------------------------------------------- C08
fn matchu_wild_body(q: PTerm) -> PGoal {
    proto_vulcan!(|x| {
        x == 7,
        matchu x {
            [_ | _] => q == 0,
            _ => member(q, [1, 2, 3]),
        }
    })
}

fn matcha_wild_commits(q: PTerm) -> PGoal {
    proto_vulcan!(|x| {
        x == 7,
        matcha x {
            [_ | _] => q == 0,
            _ => {
                x == 8,
                q == 1,
            },
            y => [y == 7, q == 2],
        }
    })
}

fn matcha_first_arm(q: PTerm) -> PGoal {
    proto_vulcan!(|x| {
        x == [1, 2],
        matcha x {
            [a | _] => member(q, [a, 10]),
            _ => q == 0,
        }
    })
}

fn matchu_list_arm(q: PTerm) -> PGoal {
    proto_vulcan!(|x| {
        x == [3, 4],
        matchu x {
            [] => q == 0,
            [a, b] => member(q, [a, b]),
            _ => q == 9,
        }
    })
}

fn conda_three(q: PTerm) -> PGoal {
    proto_vulcan!(|x| {
        x == 2,
        conda {
            [x == 1, q == 10],
            [x == 2, member(q, [20, 21])],
            [q == 30],
        }
    })
}

fn condu_first_head_answer(q: PTerm) -> PGoal {
    proto_vulcan!(|x| {
        condu {
            [member(x, [1, 2, 3]), member(q, [x, 0])],
            [q == 9],
        }
    })
}

fn onceo_conjunction(q: PTerm) -> PGoal {
    proto_vulcan!(|x| { onceo { member(x, [1, 2, 3]), x == 2 }, q == x })
}

fn onceo_one_answer(q: PTerm) -> PGoal {
    proto_vulcan!(|x, y| { onceo { x == 1, member(y, [5, 6, 7]) }, project |x, y| { combine(x, y, q) } })
}

// ---------------------------------------------------------------------------------- C05
fn dfs_static_fail_clause(q: PTerm) -> PGoal {
    proto_vulcan!(dfs { cond { q == 1, false, q == 2, q == 3 } })
}

fn dfs_conjunction(q: PTerm) -> PGoal {
    proto_vulcan!(dfs {
        |x, y| {
            member(x, [1, 2, 3]),
            member(y, [4, 5]),
            project |x, y| { combined(x, y, q) }
        }
    })
}

fn dfs_block_goals(q: PTerm) -> PGoal {
    // comma-separated goals of the dfs block itself
    proto_vulcan!(|x, y| {
        dfs {
            member(x, [1, 2]),
            member(y, [6, 7]),
            project |x, y| { combined(x, y, q) }
        }
    })
}

fn dfs_nested(q: PTerm) -> PGoal {
    proto_vulcan!(dfs {
        cond {
            cond { q == 1, q == 2 },
            q == 3,
            cond { q == 4, cond { q == 5, q == 6 } },
        }
    })
}

fn dfs_match(q: PTerm) -> PGoal {
    proto_vulcan!(dfs {
        |x| {
            member(x, [[1], [2, 3], []]),
            match x {
                [a] => q == a,
                [a, b] => member(q, [a, b]),
                [] => q == 0,
            }
        }
    })
}

fn dfs_second_goal_cond(q: PTerm) -> PGoal {
    proto_vulcan!(dfs {
        |x| {
            cond { x == 1, x == 2 },
            cond { [x == 1, q == 11], [q == 5], [x == 2, q == 22] },
        }
    })
}

fn dfs_nested_brackets(q: PTerm) -> PGoal {
    proto_vulcan!(dfs { [true, [member(q, [3, 1, 2]), member(q, [1, 2, 3])]] })
}

fn dfs_nested_brackets_deep(q: PTerm) -> PGoal {
    proto_vulcan!(dfs { |x| { [x == 1, [member(q, [5, 6]), [member(q, [6, 5, 4]), q != 4]]] } })
}

fn matcha_alternation(q: PTerm) -> PGoal {
    proto_vulcan!(|x| {
        x == [5],
        matcha x {
            [] | [_] => member(q, [1, 2]),
            _ => q == 0,
        }
    })
}

fn matcha_alternation_unbound(q: PTerm) -> PGoal {
    // every alternative of an arm is a clause of its own: the first one that unifies commits
    proto_vulcan!(matcha q {
        1 | 2 => ,
        3 => ,
    })
}

fn matcha_alternation_unbound_body(q: PTerm) -> PGoal {
    proto_vulcan!(|x| {
        matcha x {
            [_] | [_, _] => member(q, [10, 20]),
            _ => q == 0,
        }
    })
}

fn matchu_alternation_unbound(q: PTerm) -> PGoal {
    proto_vulcan!(matchu q {
        4 | 5 => ,
        6 => ,
    })
}

fn matcha_several_terms(q: PTerm) -> PGoal {
    // the head of an arm is the unification of ALL matched terms with the pattern
    proto_vulcan!(|a, b| {
        a == 1,
        b == 2,
        matcha [a, b] {
            [1, 1] => q == 11,
            [1, _] => q == 12,
            _ => q == 0,
        }
    })
}

fn matchu_repeated_variable(q: PTerm) -> PGoal {
    proto_vulcan!(|a, b| {
        a == 3,
        b == 4,
        matchu [a, b] {
            [x, x] => q == x,
            [x, y] => member(q, [x, y]),
        }
    })
}

fn conda_bare_true(q: PTerm) -> PGoal {
    // a bare `true` as the default clause
    proto_vulcan!(|x| { x == 2, conda { [x == 1, q == 5], true }, q == 7 })
}

fn condu_leading_true(q: PTerm) -> PGoal {
    // a bare `true` as the first clause commits at once
    proto_vulcan!([condu { true, q == 9 }, q == 1])
}

fn condu_bracketed_head(q: PTerm) -> PGoal {
    // the head of the clause is the whole inner bracket
    proto_vulcan!(|x| {
        condu {
            [[member(x, [1, 2, 3]), x != 1], member(q, [x, 10])],
            [q == 0],
        }
    })
}

fn conda_bracketed_head_fails(q: PTerm) -> PGoal {
    proto_vulcan!(|x| {
        conda {
            [[member(x, [1, 2]), x == 3], q == 1],
            [q == 2],
        }
    })
}

// ---------------------------------------------------------------------------------- C02
fn literal_tail_diseq(q: PTerm) -> PGoal {
    // [x | []] is the one-element list [x]
    proto_vulcan!(|x| { [x | []] != [7], conde { x == 7, x == 8 }, q == x })
}

fn literal_tail_eq(q: PTerm) -> PGoal {
    proto_vulcan!(|y| { [1 | [2, y]] == [1, 2, 3], q == y })
}

fn literal_tail_diseq_later(q: PTerm) -> PGoal {
    proto_vulcan!(|l| { l != [1 | [2, 3]], conde { l == [1, 2, 3], l == [1, 2] }, member(q, l) })
}

fn wildcards_are_distinct(q: PTerm) -> PGoal {
    proto_vulcan!(|l| { l == [_, _, _], l == [1, 2, 3], member(q, l) })
}

fn improper_three_heads(q: PTerm) -> PGoal {
    proto_vulcan!(|t| { [1, 2, 3 | t] == [1, 2, 3, 4, 5], member(q, t) })
}

fn nested_empty_lists(q: PTerm) -> PGoal {
    proto_vulcan!(|l| { l == [[], 1, [[]]], conde { [l != [[], 1, [[]]], q == 0], [l == [[], q, _]] } })
}

fn negative_literals(q: PTerm) -> PGoal {
    proto_vulcan!(|x| { member(x, [-1, 0, 1]), x != -1, q == x })
}

fn strings_and_bools(q: PTerm) -> PGoal {
    proto_vulcan!(|x, y| {
        member(x, ["a", "b", "a"]),
        x != "b",
        member(y, [true, false]),
        y != false,
        q == 1,
    })
}

fn diseq_two_pairs(q: PTerm) -> PGoal {
    proto_vulcan!(|x, y| {
        [x, y] != [1, 2],
        member(x, [1, 3]),
        member(y, [2, 4]),
        project |x, y| { combine(x, y, q) }
    })
}

fn diseq_var_var(q: PTerm) -> PGoal {
    proto_vulcan!(|x, y| { x != y, member(x, [1, 2]), member(y, [1, 2]), project |x, y| { combine(x, y, q) } })
}

fn char_is_not_a_string(q: PTerm) -> PGoal {
    proto_vulcan!(|x| { x == 'a', x != "a", conde { [x == "a", q == 0], [x == 'a', q == 1] } })
}

fn char_and_string_in_lists(q: PTerm) -> PGoal {
    proto_vulcan!(|x| { member(x, ['b', "b", "bb"]), x != "b", conde { [x == 'b', q == 1], [x == "bb", q == 2] } })
}

// ---------------------------------------------------------------------------------- C06
fn append_non_list_to_empty(q: PTerm) -> PGoal {
    proto_vulcan!(|l, r| { l == 5, conde { [append(l, [], r), q == 1], [q == 2] } })
}

fn append_improper_to_empty(q: PTerm) -> PGoal {
    proto_vulcan!(|r| { conde { [append([1, 2 | 3], [], r), q == 1], [q == 2] } })
}

fn append_to_empty(q: PTerm) -> PGoal {
    proto_vulcan!(|r| { append([1, 2], [], r), member(q, r) })
}

fn for_loop_collection(q: PTerm) -> PGoal {
    let a: PTerm = LTerm::var("a");
    let b: PTerm = LTerm::var("b");
    let c: PTerm = LTerm::var("c");
    let coll = vec![a.clone(), b.clone(), c.clone()];
    proto_vulcan!([
        for x in &coll { member(x, [1, 2]) },
        a != b,
        b != c,
        a == q,
    ])
}

fn match_three_terms(q: PTerm) -> PGoal {
    proto_vulcan!(|l, s| {
        member(l, [[], [1], [1, 2]]),
        s == 9,
        match [l, s, q] {
            [[], x, x] => ,
            [[x | _], _, x] => ,
        }
    })
}

fn match_nested_pattern(q: PTerm) -> PGoal {
    proto_vulcan!(|x| {
        x == [[1, 2], 3, 4],
        match x {
            [[a, b] | t] => member(q, [a, b | t]),
            _ => q == 0,
        }
    })
}

fn closure_relation(q: PTerm) -> PGoal {
    fn pick_or_zero(l: PTerm, out: PTerm) -> PGoal {
        proto_vulcan_closure!(match l {
            [] => out == 0,
            [h | t] => conde { out == h, pick_or_zero(t, out) },
        })
    }
    pick_or_zero(lterm!([3, 2, 1]), q)
}

/// Recursion delayed by the `closure { .. }` operator, the recursive call written as a path
/// expression: the body must be built when the closure is solved, not when it is constructed
/// (constructing it eagerly recurses without bound whatever the list is).
fn walk_list(l: PTerm, out: PTerm) -> PGoal {
    proto_vulcan!(match l {
        [] => out == 0,
        [h | t] => conde { out == h, closure { self::walk_list(t.clone(), out.clone()) } },
    })
}

fn closure_path_call(q: PTerm) -> PGoal {
    walk_list(lterm!([3, 2, 1]), q)
}

fn closure_macro_path_call(q: PTerm) -> PGoal {
    fn inner(l: PTerm, out: PTerm) -> PGoal {
        proto_vulcan!(match l {
            [] => out == 0,
            [h | t] => conde { out == h, walk_list_lazy(t, out) },
        })
    }
    inner(lterm!([5, 4]), q)
}

fn walk_list_lazy(l: PTerm, out: PTerm) -> PGoal {
    proto_vulcan_closure!(self::walk_list(l.clone(), out.clone()))
}

fn fresh_five_goals(q: PTerm) -> PGoal {
    proto_vulcan!(|a, b, c, d| {
        a == 1,
        b == [a, 2],
        c == [b, 3],
        d == [c, 4],
        match d {
            [[[x, y], z], w] => member(q, [x, y, z, w]),
        }
    })
}

fn operator_then_goals(q: PTerm) -> PGoal {
    proto_vulcan!(|x| { conde { x == 1, x == 2, x == 3 }, x != 2, q == x })
}

fn onceo_in_conde(q: PTerm) -> PGoal {
    proto_vulcan!(conde { [onceo { member(q, [1, 2, 3]) }], [q == 7], [onceo { false }] })
}

fn literal_tail_member(q: PTerm) -> PGoal {
    proto_vulcan!(|t| { t == [1 | [2, 3]], member(q, t) })
}

fn match_alternation(q: PTerm) -> PGoal {
    proto_vulcan!(|x| {
        member(x, [[], [1], [1, 2]]),
        match x {
            [] | [_] => member(q, [1, 2, 1]),
            [_, _] => q == 0,
        }
    })
}

fn nested_brackets(q: PTerm) -> PGoal {
    proto_vulcan!(|x, y| { [member(x, [1, 2]), [member(y, [3, 4]), x != 2], project |x, y| { combine(x, y, q) }] })
}

fn inner_false_clause(q: PTerm) -> PGoal {
    proto_vulcan!(|y| { conde { [y == 0, q == 4], [conde { false, q == 5 }] } })
}

fn inner_true_clause(q: PTerm) -> PGoal {
    proto_vulcan!(|y| { conde { [y == 0, q == 4], [conde { true, q == 5 }, q == 5] } })
}

fn fallthrough_clauses(q: PTerm) -> PGoal {
    proto_vulcan!(|x| {
        conde { x == 1, x == 2, x == 3 },
        conde { [x == 1, q == 10], [x == 2, q == 20], [q == 0] },
    })
}

fn match_all_arms(q: PTerm) -> PGoal {
    proto_vulcan!(|x| {
        member(x, [[1, 2], [3], []]),
        match x {
            [a, _] => q == a,
            [a] => q == a,
            [] => q == 0,
            _ => q == 99,
        }
    })
}

fn nested_conj_first(q: PTerm) -> PGoal {
    proto_vulcan!(|x, y| {
        [member(x, [1, 2, 3]), x != 2],
        member(y, [7]),
        project |x, y| { combine(x, y, q) }
    })
}

fn five_clauses(q: PTerm) -> PGoal {
    proto_vulcan!(conde { q == 1, q == 2, q == 3, q == 4, q == 5 })
}

fn seven_clauses(q: PTerm) -> PGoal {
    proto_vulcan!(|x| {
        conde { x == 1, x == 2, x == 3, x == 4, x == 5, x == 6, x == 7 },
        project |x| { combine(1, x, q) }
    })
}

fn four_clauses(q: PTerm) -> PGoal {
    proto_vulcan!(conde { q == 1, [q == 2, false], q == 3, member(q, [4, 5]) })
}

pub struct Entry {
    pub name: &'static str,
    pub prop: &'static str,
    /// depth-first entries: the exact sequence is expected; otherwise the multiset
    pub ordered: bool,
    pub build: fn(PTerm) -> PGoal,
    pub expected: &'static [i64],
}

pub fn corpus() -> Vec<Entry> {
    let e = |name, prop, ordered, build: fn(PTerm) -> PGoal, expected| Entry { name, prop, ordered, build, expected };
    vec![
        e("project-two-names", "C11", false, proj_two, &[73]),
        e("project-three-names", "C11", false, proj_three, &[23]),
        e("project-four-states", "C11", false, proj_states, &[13, 14, 23, 24]),
        e("project-later-body-goal", "C11", false, proj_later_goal, &[52]),
        e("project-operator-in-body", "C11", false, proj_operator_inside, &[25, 52]),
        e("project-fresh-in-body", "C11", false, proj_fresh_inside, &[46]),
        e("project-variable-chain", "C11", false, proj_chain, &[88]),
        e("project-in-dfs", "C11", true, proj_dfs, &[18, 19, 28, 29]),
        e("matchu-wildcard-arm-body", "C08", false, matchu_wild_body, &[1, 2, 3]),
        e("matcha-wildcard-arm-commits", "C08", false, matcha_wild_commits, &[]),
        e("matcha-first-arm", "C08", false, matcha_first_arm, &[1, 10]),
        e("matchu-list-arm", "C08", false, matchu_list_arm, &[3, 4]),
        e("conda-three-clauses", "C08", false, conda_three, &[20, 21]),
        e("condu-first-head-answer", "C08", false, condu_first_head_answer, &[0, 1]),
        e("onceo-conjunction", "C08", false, onceo_conjunction, &[2]),
        e("onceo-one-answer", "C08", false, onceo_one_answer, &[15]),
        e("dfs-static-fail-clause", "C05", true, dfs_static_fail_clause, &[1, 2, 3]),
        e("dfs-conjunction", "C05", true, dfs_conjunction, &[14, 15, 24, 25, 34, 35]),
        e("dfs-block-goals", "C05", true, dfs_block_goals, &[16, 17, 26, 27]),
        e("dfs-nested-cond", "C05", true, dfs_nested, &[1, 2, 3, 4, 5, 6]),
        e("dfs-match-arms", "C05", true, dfs_match, &[1, 2, 3, 0]),
        e("dfs-cond-as-second-goal", "C05", true, dfs_second_goal_cond, &[11, 5, 5, 22]),
        e("dfs-nested-brackets", "C05", true, dfs_nested_brackets, &[3, 1, 2]),
        e("dfs-nested-brackets-deep", "C05", true, dfs_nested_brackets_deep, &[5, 6]),
        e("matcha-alternation-arm", "C08", false, matcha_alternation, &[1, 2]),
        e("matcha-alternation-unbound-term", "C08", false, matcha_alternation_unbound, &[1]),
        e("matcha-alternation-unbound-term-body", "C08", false, matcha_alternation_unbound_body, &[10, 20]),
        e("matchu-alternation-unbound-term", "C08", false, matchu_alternation_unbound, &[4]),
        e("conde-five-clauses", "C06", false, five_clauses, &[1, 2, 3, 4, 5]),
        e("conde-seven-clauses-in-conjunction", "C06", false, seven_clauses, &[11, 12, 13, 14, 15, 16, 17]),
        e("condu-bracketed-head", "C08", false, condu_bracketed_head, &[2, 10]),
        e("conda-bracketed-head-fails", "C08", false, conda_bracketed_head_fails, &[2]),
        e("literal-tail-disequality", "C02", false, literal_tail_diseq, &[8]),
        e("literal-tail-equality", "C02", false, literal_tail_eq, &[3]),
        e("literal-tail-disequality-later", "C02", false, literal_tail_diseq_later, &[1, 2]),
        e("wildcards-are-distinct", "C02", false, wildcards_are_distinct, &[1, 2, 3]),
        e("improper-list-three-heads", "C02", false, improper_three_heads, &[4, 5]),
        e("nested-empty-lists", "C02", false, nested_empty_lists, &[1]),
        e("negative-literals", "C02", false, negative_literals, &[0, 1]),
        e("strings-and-booleans", "C02", false, strings_and_bools, &[1, 1]),
        e("disequality-two-pairs", "C02", false, diseq_two_pairs, &[14, 32, 34]),
        e("disequality-var-var", "C02", false, diseq_var_var, &[12, 21]),
        e("char-is-not-a-string", "C02", false, char_is_not_a_string, &[1]),
        e("char-and-string-in-lists", "C02", false, char_and_string_in_lists, &[1, 2]),
        e("append-non-list-to-empty", "C06", false, append_non_list_to_empty, &[2]),
        e("append-improper-list-to-empty", "C06", false, append_improper_to_empty, &[2]),
        e("append-to-empty", "C06", false, append_to_empty, &[1, 2]),
        e("for-loop-collection", "C06", false, for_loop_collection, &[1, 2]),
        e("match-three-terms", "C06", false, match_three_terms, &[1, 1, 9]),
        e("match-nested-pattern", "C06", false, match_nested_pattern, &[0, 1, 2, 3, 4]),
        e("closure-relation", "C06", false, closure_relation, &[0, 1, 2, 3]),
        e("closure-path-call", "C06", false, closure_path_call, &[0, 1, 2, 3]),
        e("closure-macro-path-call", "C06", false, closure_macro_path_call, &[0, 4, 5]),
        e("matcha-several-terms", "C08", false, matcha_several_terms, &[12]),
        e("matchu-repeated-variable", "C08", false, matchu_repeated_variable, &[3, 4]),
        e("conda-bare-true-clauses", "C08", false, conda_bare_true, &[7]),
        e("condu-leading-true-clause", "C08", false, condu_leading_true, &[1]),
        e("fresh-five-goals", "C06", false, fresh_five_goals, &[1, 2, 3, 4]),
        e("operator-then-goals", "C06", false, operator_then_goals, &[1, 3]),
        e("onceo-in-conde", "C08", false, onceo_in_conde, &[1, 7]),
        e("literal-tail-member", "C06", false, literal_tail_member, &[1, 2, 3]),
        e("match-alternation-arm", "C06", false, match_alternation, &[0, 1, 1, 1, 1, 2, 2]),
        e("nested-brackets", "C06", false, nested_brackets, &[13, 14]),
        e("inner-conde-false-clause", "C06", false, inner_false_clause, &[4, 5]),
        e("inner-conde-true-clause", "C06", false, inner_true_clause, &[4, 5, 5]),
        e("fallthrough-clauses", "C06", false, fallthrough_clauses, &[0, 0, 0, 10, 20]),
        e("match-all-arms", "C06", false, match_all_arms, &[0, 1, 3, 99, 99, 99]),
        e("nested-conjunction-first", "C06", false, nested_conj_first, &[17, 37]),
        e("four-clauses-one-failing", "C06", false, four_clauses, &[1, 3, 4, 5]),
    ]
}

/// Indices of the entries of one property.
pub fn entries_for(prop: &str) -> Vec<usize> {
    corpus().iter().enumerate().filter(|(_, e)| e.prop == prop).map(|(i, _)| i).collect()
}

fn run_goal(build: fn(PTerm) -> PGoal, cfg: &SimCfg) -> (Result<Vec<T>, End>, Stats) {
    let handle = Handle::install(cfg, false);
    let h2 = handle.clone();
    let res = std::panic::catch_unwind(std::panic::AssertUnwindSafe(|| {
        let q: PTerm = LTerm::var("q");
        let goal = wrap_query_goal(&[q.clone()], vec![build(q.clone())]);
        let mut solver = PSolver::new((), false);
        let mut stream = solver.start(&goal, PState::new(SimUser::default()));
        let mut out = vec![];
        while let Some(state) = solver.next(&mut stream) {
            h2.set_armed(false);
            let a = canon_row(&row_of_state(&state, &[q.clone()]));
            h2.set_armed(true);
            match a.term {
                T::Cons(h, _) => out.push(*h),
                other => out.push(other),
            }
        }
        out
    }));
    let stats = handle.finish();
    match res {
        Ok(v) => (Ok(v), stats),
        Err(p) => (Err(classify_unwind_pub(p)), stats),
    }
}

/// Every 64th case of a check that has surface entries is one of them.
pub fn case_for(prop: &'static str, seed: u64, index: u64) -> Option<crate::framework::Case> {
    if index % 64 != 1 {
        return None;
    }
    let mine = entries_for(prop);
    if mine.is_empty() {
        return None;
    }
    let k = mine[((index / 64) % mine.len() as u64) as usize];
    let mut st = crate::framework::streams(seed, prop, index);
    // Depth-first entries are compared as sequences: no yields (the query's own reification
    // continuation is interleaved, see the C05 known finding), only the expansion is under test.
    let cfg = if corpus()[k].ordered { SimCfg::exact(100_000) } else { crate::gen_search::sim_cfg(&mut st.schedule, 100_000) };
    Some(crate::framework::Case {
        property: prop.into(),
        oracle: "surface-corpus".into(),
        program: crate::ast::Program { nq: 1, defs: vec![], body: vec![] },
        cfg,
        extra: serde_json::json!({"entry": k}),
    })
}

pub fn is_surface(case: &crate::framework::Case) -> bool {
    case.oracle == "surface-corpus"
}

pub fn valid(case: &crate::framework::Case) -> bool {
    case.extra["entry"].as_u64().map(|k| (k as usize) < corpus().len()).unwrap_or(false)
}

pub fn run_case(case: &crate::framework::Case) -> CaseResult {
    run_entry(case.extra["entry"].as_u64().unwrap_or(0) as usize, &case.cfg)
}

/// Run corpus entry `k` under `cfg` and compare with its expectation.
pub fn run_entry(k: usize, cfg: &SimCfg) -> CaseResult {
    let mut facts = Facts::default();
    let all = corpus();
    let e = &all[k % all.len()];
    let mut expected: Vec<T> = e.expected.iter().map(|n| T::I(*n)).collect();
    let (res, stats) = run_goal(e.build, cfg);
    facts.trace_hash = crate::rng::mix(&[stats.trace_hash, k as u64, 0x5EFA]);
    facts.stats.push(stats);
    match res {
        Ok(mut got) => {
            if !e.ordered {
                got.sort();
                expected.sort();
            }
            facts.answers_compared += got.len() as u64;
            if got != expected {
                let show = |v: &[T]| v.iter().map(|t| t.show()).collect::<Vec<_>>().join(", ");
                return CaseResult {
                    verdict: Verdict::Violation {
                        class: "surface-corpus-answers-differ".into(),
                        detail: format!(
                            "macro-written program `{}` ({}): got [{}], expected [{}]",
                            e.name,
                            if e.ordered { "sequence" } else { "multiset" },
                            show(&got),
                            show(&expected)
                        ),
                    },
                    facts,
                };
            }
            facts.nontrivial = true;
            CaseResult { verdict: Verdict::Pass, facts }
        }
        Err(End::Panic(pi)) => CaseResult {
            verdict: Verdict::Violation {
                class: format!("panic@{}", pi.location),
                detail: format!("macro-written program `{}`: {}", e.name, pi.message),
            },
            facts,
        },
        Err(_) => CaseResult { verdict: Verdict::Inconclusive("budget".into()), facts },
    }
}
