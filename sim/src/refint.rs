//! R1: small reference interpreter for tree programs. Own terms, own triangular substitution
//! with occurs check, textbook disequality store, plain depth-first evaluation with fuel.
//! Shares no code with proto-vulcan.
use crate::ast::*;
use std::collections::BTreeMap;

#[derive(Clone, Debug, Default)]
pub struct St {
    /// runtime variable -> term
    pub subst: BTreeMap<u32, T>,
    /// each constraint: bindings that must not all hold
    pub diseqs: Vec<Vec<(u32, T)>>,
    /// user path log (UserTag)
    pub path: Vec<u32>,
    /// ids of the leaf answers used on the way (leaf id, answer index)
    pub attribution: Vec<(u32, u32)>,
    /// committed-choice decisions taken on the way (choice point, head answer index)
    pub choices: Vec<(u32, u32)>,
    /// number of successful == goals on the way
    pub eqs: u32,
    /// total number of bindings those == goals added
    pub eq_bindings: u32,
}

#[derive(Clone, Debug)]
pub struct Opts {
    /// which head answer each evaluated condu/onceo keeps (by evaluation order; default: first)
    pub choice_script: Option<Vec<u32>>,
    /// evaluation steps allowed before giving up
    pub fuel: u64,
    /// how many times `Anyo`/`Flood`/`Always` unfold (0 = treat as finite failure)
    pub unfold: u32,
    /// maximum nesting of recursive calls (lib relations and CallDef)
    pub rec_depth: u32,
    /// stop after this many answers
    pub max_answers: usize,
}

impl Default for Opts {
    fn default() -> Opts {
        Opts {
            choice_script: None,
            fuel: 200_000,
            unfold: 0,
            rec_depth: 64,
            max_answers: 100_000,
        }
    }
}

#[derive(Clone, Debug, PartialEq, Eq, PartialOrd, Ord, Hash)]
pub struct Answer {
    /// walked* query term (list of the query variables), runtime variables renamed to
    /// `Any(k)` by first occurrence
    pub term: T,
    /// disequality constraints over `Any` names, each sorted, the set sorted
    pub diseqs: Vec<Vec<(T, T)>>,
    pub path: Vec<u32>,
    pub attribution: Vec<(u32, u32)>,
    pub choices: Vec<(u32, u32)>,
    pub eqs: u32,
    pub eq_bindings: u32,
}

/// One evaluation of a condu/onceo node: how many head answers it had and whether the engine's
/// choice among them is forced to be the first (order-deterministic head).
#[derive(Clone, Debug)]
pub struct ChoicePoint {
    pub id: u32,
    pub heads: u32,
    pub forced_first: bool,
    pub picked: u32,
}

pub struct Outcome {
    pub answers: Vec<Answer>,
    pub choice_points: Vec<ChoicePoint>,
    /// fuel, recursion bound or answer bound cut the search short
    pub cut: bool,
    /// an infinite construct (anyo, flood, always/never) was unfolded a bounded number of times
    pub unfolded: bool,
    /// evaluation steps the reference needed (a measure of the size of the search tree)
    pub steps: u64,
}

pub struct R1<'a> {
    prog: &'a Program,
    opts: Opts,
    next: u32,
    fuel: u64,
    cut: bool,
    unfolded: bool,
    choice_points: Vec<ChoicePoint>,
}

/// Is the first answer of this goal, in engine order, necessarily the reference's first?
pub fn order_deterministic(g: &G) -> bool {
    match g {
        G::Succeed | G::Fail | G::Eq(..) | G::Neq(..) | G::Prim(..) | G::UserTag(_) | G::Probe(_) | G::Observe(_) => true,
        G::Leaf(l) => matches!(l.shape, Shape::Chain | Shape::Iter),
        G::Dfs(_) => true,
        G::Call(Rel::ConsR, _) | G::Call(Rel::First, _) | G::Call(Rel::Rest, _) | G::Call(Rel::Empty, _) => true,
        G::Call(Rel::Succeed, _) | G::Call(Rel::Fail, _) => true,
        _ => false,
    }
}

type Env = Vec<Option<T>>;

fn env_set(env: &mut Env, v: VarIx, t: T) {
    let i = v as usize;
    if env.len() <= i {
        env.resize(i + 1, None);
    }
    env[i] = Some(t);
}

fn inst(t: &T, env: &Env) -> T {
    match t {
        T::V(v) => match env.get(*v as usize) {
            Some(Some(x)) => x.clone(),
            _ => panic!("refint: unbound program variable v{}", v),
        },
        T::Cons(h, tl) => T::cons(inst(h, env), inst(tl, env)),
        T::Cmp(k, a, b) => T::cmp(*k, inst(a, env), inst(b, env)),
        other => other.clone(),
    }
}

pub fn walk<'b>(t: &'b T, s: &'b BTreeMap<u32, T>) -> &'b T {
    let mut cur = t;
    loop {
        match cur {
            T::V(v) => match s.get(v) {
                Some(n) => cur = n,
                None => return cur,
            },
            _ => return cur,
        }
    }
}

pub fn walk_star(t: &T, s: &BTreeMap<u32, T>) -> T {
    let w = walk(t, s);
    match w {
        T::Cons(h, tl) => T::cons(walk_star(h, s), walk_star(tl, s)),
        T::Cmp(k, a, b) => T::cmp(*k, walk_star(a, s), walk_star(b, s)),
        other => other.clone(),
    }
}

fn occurs(v: u32, t: &T, s: &BTreeMap<u32, T>) -> bool {
    match walk(t, s) {
        T::V(x) => *x == v,
        T::Cons(h, tl) | T::Cmp(_, h, tl) => occurs(v, h, s) || occurs(v, tl, s),
        _ => false,
    }
}

/// Unify, recording new bindings in `ext`.
pub fn unify(a: &T, b: &T, s: &mut BTreeMap<u32, T>, ext: &mut Vec<(u32, T)>) -> bool {
    let a = walk(a, s).clone();
    let b = walk(b, s).clone();
    match (&a, &b) {
        (T::V(x), T::V(y)) if x == y => true,
        (T::V(x), _) => {
            if occurs(*x, &b, s) {
                false
            } else {
                s.insert(*x, b.clone());
                ext.push((*x, b));
                true
            }
        }
        (_, T::V(y)) => {
            if occurs(*y, &a, s) {
                false
            } else {
                s.insert(*y, a.clone());
                ext.push((*y, a));
                true
            }
        }
        (T::Cons(h1, t1), T::Cons(h2, t2)) => unify(h1, h2, s, ext) && unify(t1, t2, s, ext),
        (T::Cmp(k1, a1, b1), T::Cmp(k2, a2, b2)) => k1 == k2 && unify(a1, a2, s, ext) && unify(b1, b2, s, ext),
        (T::Nil, T::Nil) => true,
        (T::I(x), T::I(y)) => x == y,
        (T::S(x), T::S(y)) => x == y,
        (T::B(x), T::B(y)) => x == y,
        _ => false,
    }
}

/// Re-check the disequality store. Returns false when some constraint is violated.
fn recheck(st: &mut St) -> bool {
    let old = std::mem::take(&mut st.diseqs);
    for c in old.into_iter() {
        let mut s = st.subst.clone();
        let mut ext = vec![];
        let mut possible = true;
        for (v, t) in c.iter() {
            if !unify(&T::V(*v), t, &mut s, &mut ext) {
                possible = false;
                break;
            }
        }
        if !possible {
            continue; // can never all hold: constraint satisfied forever
        }
        if ext.is_empty() {
            return false; // all hold already: violated
        }
        st.diseqs.push(ext);
    }
    true
}

impl<'a> R1<'a> {
    pub fn new(prog: &'a Program, opts: Opts) -> R1<'a> {
        R1 {
            prog,
            fuel: opts.fuel,
            opts,
            next: 0,
            cut: false,
            unfolded: false,
            choice_points: vec![],
        }
    }

    /// Committed choice: keep exactly one head answer. Which one is decided by the choice script
    /// (`Opts::choice_script`, indexed by the order in which choice points are evaluated; missing
    /// entries and order-deterministic heads take the first). Every evaluated choice point is
    /// recorded so that a caller can enumerate the alternatives.
    fn choose(&mut self, mut heads: Vec<St>, forced_first: bool) -> Vec<St> {
        let id = self.choice_points.len() as u32;
        let mut pick = 0usize;
        if !forced_first {
            if let Some(script) = &self.opts.choice_script {
                if let Some(p) = script.get(id as usize) {
                    if (*p as usize) < heads.len() {
                        pick = *p as usize;
                    }
                }
            }
        }
        self.choice_points.push(ChoicePoint { id, heads: heads.len() as u32, forced_first, picked: pick as u32 });
        let chosen = heads.swap_remove(pick);
        vec![chosen]
    }

    fn fresh(&mut self) -> T {
        let v = self.next;
        self.next += 1;
        T::V(v)
    }

    pub fn run(mut self) -> Outcome {
        let mut env: Env = vec![];
        let mut qs = vec![];
        for i in 0..self.prog.nq {
            let v = self.fresh();
            env_set(&mut env, i, v.clone());
            qs.push(v);
        }
        let q = T::list(qs);
        let body = self.prog.body.clone();
        let sts = self.conj(&body, &env, vec![St::default()], 0);
        let answers = sts.iter().map(|st| reify_answer(&q, st)).collect();
        Outcome {
            answers,
            choice_points: self.choice_points.clone(),
            cut: self.cut,
            unfolded: self.unfolded,
            steps: self.opts.fuel - self.fuel,
        }
    }

    fn tick(&mut self) -> bool {
        if self.fuel == 0 {
            self.cut = true;
            false
        } else {
            self.fuel -= 1;
            true
        }
    }

    fn conj(&mut self, gs: &[G], env: &Env, mut sts: Vec<St>, depth: u32) -> Vec<St> {
        for g in gs {
            let mut out = vec![];
            for st in sts.into_iter() {
                let r = self.eval(g, env, st, depth);
                out.extend(r);
                if out.len() > self.opts.max_answers {
                    self.cut = true;
                    out.truncate(self.opts.max_answers);
                    break;
                }
            }
            sts = out;
            if sts.is_empty() {
                break;
            }
        }
        sts
    }

    fn eq(&mut self, a: &T, b: &T, mut st: St) -> Vec<St> {
        let mut ext = vec![];
        if unify(a, b, &mut st.subst, &mut ext) && (ext.is_empty() || recheck(&mut st)) {
            st.eqs += 1;
            st.eq_bindings += ext.len() as u32;
            vec![st]
        } else {
            vec![]
        }
    }

    fn neq(&mut self, a: &T, b: &T, mut st: St) -> Vec<St> {
        let mut s = st.subst.clone();
        let mut ext = vec![];
        if !unify(a, b, &mut s, &mut ext) {
            vec![st]
        } else if ext.is_empty() {
            vec![]
        } else {
            st.diseqs.push(ext);
            vec![st]
        }
    }

    fn lib_def(&mut self, r: Rel, a: &[T], st: St, depth: u32) -> Vec<St> {
        // Library relations, clause for clause as in src/relation/*.rs.
        let mut env: Env = vec![];
        for (i, t) in a.iter().enumerate() {
            env_set(&mut env, i as u32, t.clone());
        }
        let v = |i: u32| T::V(i);
        let body: G = match r {
            Rel::Member => G::Conde(vec![
                vec![G::Fresh(
                    vec![10, 11],
                    vec![G::Eq(v(1), T::cons(v(10), v(11))), G::Eq(v(10), v(0))],
                )],
                vec![G::Fresh(
                    vec![10, 11],
                    vec![
                        G::Eq(v(1), T::cons(v(10), v(11))),
                        G::Call(Rel::Member, vec![v(0), v(11)]),
                    ],
                )],
            ]),
            Rel::Member1 => G::Conde(vec![
                vec![G::Fresh(
                    vec![10, 11],
                    vec![G::Eq(v(1), T::cons(v(10), v(11))), G::Eq(v(10), v(0))],
                )],
                vec![G::Fresh(
                    vec![10, 11],
                    vec![
                        G::Eq(v(1), T::cons(v(10), v(11))),
                        G::Neq(v(10), v(0)),
                        G::Call(Rel::Member1, vec![v(0), v(11)]),
                    ],
                )],
            ]),
            Rel::Append => G::Conde(vec![
                vec![G::Fresh(
                    vec![10],
                    vec![G::Eq(
                        T::list(vec![v(0), v(1), v(2)]),
                        T::list(vec![T::Nil, v(10), v(10)]),
                    )],
                )],
                vec![G::Fresh(
                    vec![10, 11, 12, 13],
                    vec![
                        G::Eq(
                            T::list(vec![v(0), v(1), v(2)]),
                            T::list(vec![T::cons(v(10), v(11)), v(12), T::cons(v(10), v(13))]),
                        ),
                        G::Call(Rel::Append, vec![v(11), v(12), v(13)]),
                    ],
                )],
            ]),
            Rel::Rember => G::Conde(vec![
                vec![G::Eq(T::list(vec![v(1), v(2)]), T::list(vec![T::Nil, T::Nil]))],
                vec![G::Fresh(
                    vec![10, 11],
                    vec![
                        G::Eq(
                            T::list(vec![v(1), v(2)]),
                            T::list(vec![T::cons(v(10), v(11)), v(11)]),
                        ),
                        G::Eq(v(10), v(0)),
                    ],
                )],
                vec![G::Fresh(
                    vec![10, 11, 12],
                    vec![
                        G::Eq(
                            T::list(vec![v(1), v(2)]),
                            T::list(vec![T::cons(v(10), v(11)), T::cons(v(10), v(12))]),
                        ),
                        G::Neq(v(10), v(0)),
                        G::Call(Rel::Rember, vec![v(0), v(11), v(12)]),
                    ],
                )],
            ]),
            Rel::Permute => G::Conde(vec![
                vec![G::Eq(T::list(vec![v(0), v(1)]), T::list(vec![T::Nil, T::Nil]))],
                vec![G::Fresh(
                    vec![10, 11, 12],
                    vec![
                        G::Eq(
                            T::list(vec![v(0), v(1)]),
                            T::list(vec![T::cons(v(10), v(11)), v(12)]),
                        ),
                        G::Fresh(
                            vec![13],
                            vec![
                                G::Call(Rel::Permute, vec![v(11), v(13)]),
                                G::Call(Rel::Rember, vec![v(10), v(1), v(13)]),
                            ],
                        ),
                    ],
                )],
            ]),
            Rel::ConsR => G::Eq(T::cons(v(0), v(1)), v(2)),
            Rel::First => G::Fresh(vec![10], vec![G::Eq(T::cons(v(1), v(10)), v(0))]),
            Rel::Rest => G::Fresh(vec![10], vec![G::Eq(T::cons(v(10), v(1)), v(0))]),
            Rel::Empty => G::Eq(T::Nil, v(0)),
            // as documented: all elements pairwise different (the library's own recursion scheme)
            Rel::Distinct => G::Conde(vec![
                vec![G::Eq(v(0), T::Nil)],
                vec![G::Fresh(vec![10], vec![G::Eq(v(0), T::list(vec![v(10)]))])],
                vec![G::Fresh(
                    vec![10, 11, 12],
                    vec![
                        G::Eq(v(0), T::cons(v(10), T::cons(v(11), v(12)))),
                        G::Neq(v(10), v(11)),
                        G::Call(Rel::Distinct, vec![T::cons(v(10), v(12))]),
                        G::Call(Rel::Distinct, vec![T::cons(v(11), v(12))]),
                    ],
                )],
            ]),
            Rel::Succeed => G::Succeed,
            Rel::Fail => G::Fail,
            Rel::Always => G::Anyo(vec![G::Succeed]),
            Rel::Never => G::Anyo(vec![G::Fail]),
        };
        self.eval(&body, &env, st, depth + 1)
    }

    fn eval(&mut self, g: &G, env: &Env, st: St, depth: u32) -> Vec<St> {
        if !self.tick() {
            return vec![];
        }
        match g {
            G::Succeed => vec![st],
            G::Fail => vec![],
            G::Eq(a, b) => {
                let (a, b) = (inst(a, env), inst(b, env));
                self.eq(&a, &b, st)
            }
            G::Neq(a, b) => {
                let (a, b) = (inst(a, env), inst(b, env));
                self.neq(&a, &b, st)
            }
            G::Conj(gs) | G::Closure(gs) | G::Dfs(gs) => self.conj(gs, env, vec![st], depth),
            G::Conde(cs) => {
                let mut out = vec![];
                for c in cs {
                    out.extend(self.conj(c, env, vec![st.clone()], depth));
                }
                out
            }
            G::Disj(a, b) => {
                let mut out = self.eval(a, env, st.clone(), depth);
                out.extend(self.eval(b, env, st, depth));
                out
            }
            G::Fresh(vars, body) => {
                let mut env2 = env.clone();
                for v in vars {
                    let f = self.fresh();
                    env_set(&mut env2, *v, f);
                }
                self.conj(body, &env2, vec![st], depth)
            }
            G::Leaf(leaf) => {
                let target = inst(&leaf.target, env);
                let mut out = vec![];
                let rounds = match leaf.tail {
                    Tail::Flood => {
                        self.unfolded = true;
                        self.opts.unfold.max(1)
                    }
                    _ => 1,
                };
                for _ in 0..rounds {
                    for (i, a) in leaf.answers.iter().enumerate() {
                        let val = inst(&a.value, env);
                        let mut st2 = st.clone();
                        st2.attribution.push((leaf.id, i as u32));
                        out.extend(self.eq(&target, &val, st2));
                    }
                }
                out
            }
            G::Call(r, args) => {
                if depth >= self.opts.rec_depth {
                    self.cut = true;
                    return vec![];
                }
                let a: Vec<T> = args.iter().map(|t| inst(t, env)).collect();
                self.lib_def(*r, &a, st, depth)
            }
            G::CallDef(ix, args) => {
                if depth >= self.opts.rec_depth {
                    self.cut = true;
                    return vec![];
                }
                let def = &self.prog.defs[*ix as usize];
                let mut env2: Env = vec![];
                for (p, t) in def.params.iter().zip(args.iter()) {
                    env_set(&mut env2, *p, inst(t, env));
                }
                let body = def.body.clone();
                self.conj(&body, &env2, vec![st], depth + 1)
            }
            G::Conda(cs) => {
                for c in cs {
                    if c.is_empty() {
                        continue;
                    }
                    let heads = self.eval(&c[0], env, st.clone(), depth);
                    if !heads.is_empty() {
                        return self.conj(&c[1..], env, heads, depth);
                    }
                }
                vec![]
            }
            G::Condu(cs) => {
                for c in cs {
                    if c.is_empty() {
                        continue;
                    }
                    let heads = self.eval(&c[0], env, st.clone(), depth);
                    if !heads.is_empty() {
                        let heads = self.choose(heads, order_deterministic(&c[0]));
                        return self.conj(&c[1..], env, heads, depth);
                    }
                }
                vec![]
            }
            G::Onceo(gs) => {
                let r = self.conj(gs, env, vec![st], depth);
                if r.is_empty() {
                    r
                } else {
                    let forced = gs.len() == 1 && order_deterministic(&gs[0]);
                    self.choose(r, forced)
                }
            }
            G::Anyo(gs) => {
                self.unfolded = true;
                let mut out = vec![];
                for _ in 0..self.opts.unfold {
                    out.extend(self.conj(gs, env, vec![st.clone()], depth));
                }
                out
            }
            G::For(x, coll, body) => {
                let mut sts = vec![st];
                // The library folds the collection into a conjunction last element first.
                for t in coll.iter().rev() {
                    let mut env2 = env.clone();
                    env_set(&mut env2, *x, inst(t, env));
                    sts = self.conj(body, &env2, sts, depth);
                    if sts.is_empty() {
                        break;
                    }
                }
                sts
            }
            G::Project(vars, body) => {
                let mut env2 = env.clone();
                for v in vars {
                    let cur = inst(&T::V(*v), env);
                    env_set(&mut env2, *v, walk_star(&cur, &st.subst));
                }
                self.conj(body, &env2, vec![st], depth)
            }
            G::Prim(f, a, b) => {
                let a = inst(a, env);
                let b = inst(b, env);
                match (f, &a) {
                    (PFn::Square, T::I(n)) => self.eq(&T::I(n * n), &b, st),
                    (PFn::Succ, T::I(n)) => self.eq(&T::I(n + 1), &b, st),
                    (PFn::HeadSquare, T::Cons(h, _)) => match **h {
                        T::I(n) => self.eq(&T::I(n * n), &b, st),
                        _ => vec![],
                    },
                    (PFn::Square, _) | (PFn::Succ, _) | (PFn::HeadSquare, _) => vec![],
                    (PFn::IsNumber, T::I(_)) => vec![st],
                    (PFn::IsNumber, _) => vec![],
                    (PFn::IsVar, T::V(_)) => vec![st],
                    (PFn::IsVar, _) => vec![],
                    (PFn::IsGround, t) => {
                        if t.is_ground() {
                            vec![st]
                        } else {
                            vec![]
                        }
                    }
                }
            }
            G::UserTag(tag) => {
                let mut st = st;
                st.path.push(*tag);
                vec![st]
            }
            G::Probe(_) | G::Observe(_) => vec![st],
            G::Dom(..)
            | G::DomRange(..)
            | G::Ltefd(..)
            | G::Ltfd(..)
            | G::Plusfd(..)
            | G::Minusfd(..)
            | G::Timesfd(..)
            | G::Diseqfd(..)
            | G::Distinctfd(..)
            | G::Plusz(..)
            | G::Timesz(..) => panic!("refint: arithmetic constraints are decided by R3, not R1"),
        }
    }
}

/// Reify a final state into a canonical answer.
pub fn reify_answer(q: &T, st: &St) -> Answer {
    let walked = walk_star(q, &st.subst);
    let mut names: BTreeMap<u32, u32> = BTreeMap::new();
    fn rename(t: &T, names: &mut BTreeMap<u32, u32>) -> T {
        match t {
            T::V(v) => {
                let n = names.len() as u32;
                T::Any(*names.entry(*v).or_insert(n))
            }
            T::Cons(h, tl) => {
                let h2 = rename(h, names);
                let t2 = rename(tl, names);
                T::cons(h2, t2)
            }
            T::Cmp(k, a, b) => {
                let a2 = rename(a, names);
                let b2 = rename(b, names);
                T::cmp(*k, a2, b2)
            }
            other => other.clone(),
        }
    }
    let term = rename(&walked, &mut names);
    // Constraints: walk*, keep the raw runtime variables for now (hidden variables included),
    // then rename consistently. Order of naming for hidden variables: sorted textual order.
    let mut cs: Vec<Vec<(T, T)>> = vec![];
    for c in st.diseqs.iter() {
        let mut pairs: Vec<(T, T)> = c
            .iter()
            .map(|(v, t)| (walk_star(&T::V(*v), &st.subst), walk_star(t, &st.subst)))
            .collect();
        pairs.sort();
        cs.push(pairs);
    }
    cs.sort();
    let cs = cs
        .into_iter()
        .map(|c| {
            c.into_iter()
                .map(|(a, b)| (rename(&a, &mut names), rename(&b, &mut names)))
                .collect()
        })
        .collect();
    Answer {
        term,
        diseqs: cs,
        path: st.path.clone(),
        attribution: st.attribution.clone(),
        choices: st.choices.clone(),
        eqs: st.eqs,
        eq_bindings: st.eq_bindings,
    }
}

/// Does the program (syntactically) contain a construct with infinitely many answers or steps?
pub fn is_infinite(p: &Program) -> bool {
    p.any(|g| match g {
        G::Anyo(_) => true,
        G::Call(Rel::Always, _) | G::Call(Rel::Never, _) => true,
        G::Leaf(l) => l.tail != Tail::End,
        _ => false,
    })
}
