//! Generator of CLP(FD) programs and R3, the brute-force reference for them.
use crate::ast::*;
use crate::rng::Rng;
use std::collections::BTreeMap;

#[derive(Clone, Debug)]
pub struct FdOpts {
    pub max_vars: u32,
    pub max_constraints: u32,
    pub lo: i64,
    pub hi: i64,
    pub allow_negative: bool,
    pub allow_alias: bool,
    pub allow_times: bool,
    pub allow_distinct: bool,
    pub allow_conde: bool,
    pub allow_hidden: bool,
    /// tree disequalities (`!=`) between FD variables and constants
    pub allow_neq: bool,
}

impl FdOpts {
    pub fn default_small() -> FdOpts {
        FdOpts {
            max_vars: 4,
            max_constraints: 5,
            lo: -3,
            hi: 4,
            allow_negative: true,
            allow_alias: true,
            allow_times: true,
            allow_distinct: true,
            allow_conde: true,
            allow_hidden: true,
            allow_neq: false,
        }
    }
}

/// A non-FD variable that is bound to a structure of FD variables (at most one per program).
pub const STRUCT_VAR: VarIx = 90;

/// FD variables are V(1)..V(k); V(0) is the query variable.
pub fn gen_program(w: &mut Rng, o: &FdOpts) -> Program {
    let k = 1 + w.below(o.max_vars as usize) as u32;
    let vars: Vec<VarIx> = (1..=k).collect();
    let lo = if o.allow_negative { o.lo } else { 0 };
    let hi = o.hi;
    let mut goals: Vec<G> = vec![];
    // domains
    for v in vars.iter() {
        goals.push(gen_dom(w, T::V(*v), lo, hi));
        if w.chance(1, 6) {
            goals.push(gen_dom(w, T::V(*v), lo, hi));
        }
    }
    if k >= 2 && w.chance(1, 8) {
        // one domain goal over a list of variables
        let a = *w.pick(&vars);
        let b = *w.pick(&vars);
        goals.push(gen_dom(w, T::list(vec![T::V(a), T::V(b)]), lo, hi));
    }
    let operand = |w: &mut Rng, used: &mut Vec<VarIx>| -> T {
        if w.chance(1, 5) {
            T::I(w.range(lo, hi))
        } else {
            let v = if !o.allow_alias {
                // distinct variables inside one constraint when aliasing is off
                let free: Vec<VarIx> = vars.iter().cloned().filter(|x| !used.contains(x)).collect();
                if free.is_empty() {
                    return T::I(w.range(lo, hi));
                }
                *w.pick(&free)
            } else {
                *w.pick(&vars)
            };
            used.push(v);
            T::V(v)
        }
    };
    let nc = w.below(o.max_constraints as usize + 1);
    let mut constraints = vec![];
    let mut struct_defs: Vec<G> = vec![];
    for _ in 0..nc {
        let mut used = vec![];
        let c = match w.below(12) {
            0 | 1 => G::Ltefd(operand(w, &mut used), operand(w, &mut used)),
            2 => G::Ltfd(operand(w, &mut used), operand(w, &mut used)),
            3 | 4 => G::Plusfd(operand(w, &mut used), operand(w, &mut used), operand(w, &mut used)),
            5 => G::Minusfd(operand(w, &mut used), operand(w, &mut used), operand(w, &mut used)),
            6 if o.allow_times => G::Timesfd(operand(w, &mut used), operand(w, &mut used), operand(w, &mut used)),
            7 | 8 => G::Diseqfd(operand(w, &mut used), operand(w, &mut used)),
            9 if o.allow_distinct => {
                let n = 2 + w.below(3);
                G::Distinctfd((0..n).map(|_| operand(w, &mut used)).collect())
            }
            10 => {
                let a = operand(w, &mut used);
                let b = operand(w, &mut used);
                G::Eq(a, b)
            }
            11 if o.allow_neq => {
                let a = operand(w, &mut used);
                let b = operand(w, &mut used);
                if w.chance(1, 3) {
                    // a disequality between a structure of FD variables and a structure of numbers:
                    // written out, or through a variable that is bound to the structure
                    let c = operand(w, &mut used);
                    let lhs = T::list(vec![a, c]);
                    let rhs = T::list(vec![T::I(w.range(lo, hi)), T::I(w.range(lo, hi))]);
                    if struct_defs.is_empty() && w.chance(1, 2) {
                        struct_defs.push(G::Eq(T::V(STRUCT_VAR), lhs));
                        G::Neq(T::V(STRUCT_VAR), rhs)
                    } else {
                        G::Neq(lhs, rhs)
                    }
                } else {
                    G::Neq(a, b)
                }
            }
            _ => G::Ltefd(operand(w, &mut used), operand(w, &mut used)),
        };
        constraints.push(c);
    }
    // optional disjunction: move some constraints into two alternative clauses
    if o.allow_conde && constraints.len() >= 2 && w.chance(1, 5) {
        let b = constraints.pop().unwrap();
        let a = constraints.pop().unwrap();
        let mut c1 = vec![a];
        let mut c2 = vec![b];
        if w.chance(1, 2) {
            let v = *w.pick(&vars);
            c1.push(G::Eq(T::V(v), T::I(w.range(lo, hi))));
        }
        if w.chance(1, 3) {
            let v = *w.pick(&vars);
            c2.push(gen_dom(w, T::V(v), lo, hi));
        }
        constraints.push(G::Conde(vec![c1, c2]));
    }
    goals.extend(constraints);
    let has_struct = !struct_defs.is_empty();
    goals.extend(struct_defs);
    // query term
    let nvis = if o.allow_hidden { 1 + w.below(k as usize) } else { k as usize };
    let mut vis: Vec<VarIx> = vars.clone();
    w.shuffle(&mut vis);
    vis.truncate(nvis);
    let qterm = match w.below(6) {
        0 if nvis == 1 => T::V(vis[0]),
        4 | 5 if nvis >= 2 => {
            // compound term of FD variables, on its own or as a list element / around a list
            let mut items: Vec<T> = vis.iter().map(|v| T::V(*v)).collect();
            let b = items.pop().unwrap();
            let a = items.pop().unwrap();
            let kind = w.below(2) as u8;
            match w.below(3) {
                0 => {
                    items.push(T::cmp(kind, a, b));
                    if items.len() == 1 {
                        items.pop().unwrap()
                    } else {
                        T::list(items)
                    }
                }
                1 => T::cmp(kind, T::list(vec![a]), T::list({
                    items.push(b);
                    items
                })),
                _ => T::cmp(kind, a, T::cmp(1 - kind, b, T::list(items))),
            }
        }
        1 => {
            // nested list
            let mut items: Vec<T> = vis.iter().map(|v| T::V(*v)).collect();
            let first = items.remove(0);
            let mut outer = vec![T::list(vec![first])];
            outer.extend(items);
            T::list(outer)
        }
        2 if nvis >= 2 => {
            // improper list
            let mut items: Vec<T> = vis.iter().map(|v| T::V(*v)).collect();
            let last = items.pop().unwrap();
            T::improper(items, last)
        }
        _ => T::list(vis.iter().map(|v| T::V(*v)).collect()),
    };
    goals.push(G::Eq(T::V(0), qterm));
    w.shuffle(&mut goals);
    let mut vars = vars;
    if has_struct {
        vars.push(STRUCT_VAR);
    }
    Program { nq: 1, defs: vec![], body: vec![G::Fresh(vars, goals)] }
}

fn gen_dom(w: &mut Rng, t: T, lo: i64, hi: i64) -> G {
    if w.chance(2, 3) {
        let a = w.range(lo, hi);
        let b = w.range(lo, hi);
        G::DomRange(t, a.min(b), a.max(b))
    } else {
        let n = 1 + w.below(4);
        let mut vals: Vec<i64> = (0..n).map(|_| w.range(lo, hi)).collect();
        vals.sort();
        vals.dedup();
        G::Dom(t, vals)
    }
}

// ---------------------------------------------------------------------------------------------
// R3: brute force

#[derive(Clone, Debug, PartialEq, Eq, PartialOrd, Ord)]
pub enum Val {
    I(i64),
    S(String),
    B(bool),
    Nil,
    Cons(Box<Val>, Box<Val>),
    Cmp(u8, Box<Val>, Box<Val>),
}

fn eval_term(t: &T, asg: &BTreeMap<VarIx, i64>) -> Option<Val> {
    match t {
        T::V(v) => asg.get(v).map(|i| Val::I(*i)),
        T::I(i) => Some(Val::I(*i)),
        T::S(s) => Some(Val::S(s.clone())),
        T::B(b) => Some(Val::B(*b)),
        T::Nil => Some(Val::Nil),
        T::Cons(h, tl) => Some(Val::Cons(Box::new(eval_term(h, asg)?), Box::new(eval_term(tl, asg)?))),
        T::Cmp(k, a, b) => Some(Val::Cmp(*k, Box::new(eval_term(a, asg)?), Box::new(eval_term(b, asg)?))),
        T::Any(_) => None,
    }
}

fn int(t: &T, asg: &BTreeMap<VarIx, i64>) -> Option<i64> {
    match eval_term(t, asg) {
        Some(Val::I(i)) => Some(i),
        _ => None,
    }
}

fn list_items<'a>(t: &'a T, out: &mut Vec<&'a T>) {
    let mut cur = t;
    while let T::Cons(h, tl) = cur {
        out.push(h);
        cur = tl;
    }
}

/// Number of derivations of `g` under a total assignment (product over conjunctions, sum over
/// disjunctions). `qdef` collects the terms the query variable is equated with.
fn count(g: &G, asg: &BTreeMap<VarIx, i64>, q: VarIx) -> Option<u64> {
    let b = |x: bool| Some(if x { 1u64 } else { 0 });
    match g {
        G::Succeed => Some(1),
        G::Fail => Some(0),
        G::Eq(a, bb) => {
            if *a == T::V(q) || *bb == T::V(q) {
                return Some(1); // handled as the projection
            }
            b(eval_term(a, asg)? == eval_term(bb, asg)?)
        }
        G::Neq(a, bb) => b(eval_term(a, asg)? != eval_term(bb, asg)?),
        G::Conj(gs) | G::Fresh(_, gs) => {
            let mut n = 1u64;
            for x in gs {
                n = n.saturating_mul(count(x, asg, q)?);
                if n == 0 {
                    return Some(0);
                }
            }
            Some(n)
        }
        G::Conde(cs) => {
            let mut n = 0u64;
            for c in cs {
                let mut m = 1u64;
                for x in c {
                    m = m.saturating_mul(count(x, asg, q)?);
                    if m == 0 {
                        break;
                    }
                }
                n += m;
            }
            Some(n)
        }
        G::Dom(t, vals) => {
            let mut items = vec![];
            if matches!(t, T::Cons(..) | T::Nil) {
                list_items(t, &mut items);
            } else {
                items.push(t);
            }
            for it in items {
                if !vals.contains(&int(it, asg)?) {
                    return Some(0);
                }
            }
            Some(1)
        }
        G::DomRange(t, lo, hi) => {
            let mut items = vec![];
            if matches!(t, T::Cons(..) | T::Nil) {
                list_items(t, &mut items);
            } else {
                items.push(t);
            }
            for it in items {
                let v = int(it, asg)?;
                if v < *lo || v > *hi {
                    return Some(0);
                }
            }
            Some(1)
        }
        G::Ltefd(a, c) => b(int(a, asg)? <= int(c, asg)?),
        G::Ltfd(a, c) => b(int(a, asg)? < int(c, asg)?),
        G::Plusfd(a, c, d) => b(int(a, asg)? + int(c, asg)? == int(d, asg)?),
        G::Minusfd(a, c, d) => b(int(a, asg)? - int(c, asg)? == int(d, asg)?),
        G::Timesfd(a, c, d) => b(int(a, asg)? * int(c, asg)? == int(d, asg)?),
        G::Diseqfd(a, c) => b(int(a, asg)? != int(c, asg)?),
        G::Distinctfd(ts) => {
            let mut vals = vec![];
            for t in ts {
                vals.push(int(t, asg)?);
            }
            let n = vals.len();
            vals.sort();
            vals.dedup();
            b(vals.len() == n)
        }
        _ => None,
    }
}

/// The (single) term the query variable is equated with.
fn query_term(p: &Program) -> Option<T> {
    let mut found: Vec<T> = vec![];
    fn visit(g: &G, q: VarIx, found: &mut Vec<T>) {
        if let G::Eq(a, b) = g {
            if *a == T::V(q) {
                found.push(b.clone());
            } else if *b == T::V(q) {
                found.push(a.clone());
            }
        }
        for c in g.children() {
            visit(c, q, found);
        }
    }
    for g in p.body.iter() {
        visit(g, 0, &mut found);
    }
    if found.len() == 1 {
        found.pop()
    } else {
        None
    }
}

fn first_domains(p: &Program) -> Option<BTreeMap<VarIx, Vec<i64>>> {
    let mut doms: BTreeMap<VarIx, Vec<i64>> = BTreeMap::new();
    fn visit(g: &G, doms: &mut BTreeMap<VarIx, Vec<i64>>) {
        let mut add = |t: &T, vals: Vec<i64>| {
            let mut items = vec![];
            if matches!(t, T::Cons(..) | T::Nil) {
                list_items(t, &mut items);
            } else {
                items.push(t);
            }
            for it in items {
                if let T::V(v) = it {
                    // union of everything mentioned: any superset of the real domain is fine
                    let e = doms.entry(*v).or_insert_with(Vec::new);
                    for x in vals.iter() {
                        if !e.contains(x) {
                            e.push(*x);
                        }
                    }
                }
            }
        };
        match g {
            G::Dom(t, vals) => add(t, vals.clone()),
            G::DomRange(t, lo, hi) => add(t, (*lo..=*hi).collect()),
            _ => {}
        }
        for c in g.children() {
            visit(c, doms);
        }
    }
    for g in p.body.iter() {
        visit(g, &mut doms);
    }
    Some(doms)
}

pub struct Expected {
    /// projection (value of the query term) -> number of times it must be returned
    pub multiset: BTreeMap<Val, u64>,
    pub assignments_tried: u64,
}

/// Brute-force the program: every assignment of the FD variables over the union of the domains
/// mentioned for them. Returns None when the program is outside what R3 understands.
fn subst_t(t: &T, v: VarIx, by: &T) -> T {
    match t {
        T::V(x) if *x == v => by.clone(),
        T::Cons(h, tl) => T::cons(subst_t(h, v, by), subst_t(tl, v, by)),
        T::Cmp(k, a, b) => T::cmp(*k, subst_t(a, v, by), subst_t(b, v, by)),
        other => other.clone(),
    }
}

fn subst_g(g: &G, v: VarIx, by: &T) -> G {
    let st = |t: &T| subst_t(t, v, by);
    let sg = |gs: &Vec<G>| gs.iter().map(|x| subst_g(x, v, by)).collect::<Vec<G>>();
    match g {
        G::Eq(a, b) => G::Eq(st(a), st(b)),
        G::Neq(a, b) => G::Neq(st(a), st(b)),
        G::Conj(gs) => G::Conj(sg(gs)),
        G::Fresh(vs, gs) => G::Fresh(vs.clone(), sg(gs)),
        G::Conde(cs) => G::Conde(cs.iter().map(|c| sg(c)).collect()),
        other => other.clone(),
    }
}

/// Replace the structure variable (if any) by the structure it is bound to: `s == [x, y]` is a
/// definition, not a constraint, for the brute-force semantics.
fn inline_struct(p: &Program) -> Program {
    let (vars, goals) = match p.body.as_slice() {
        [G::Fresh(vs, gs)] if vs.contains(&STRUCT_VAR) => (vs, gs),
        _ => return p.clone(),
    };
    let def = goals.iter().find_map(|g| match g {
        G::Eq(T::V(s), t) if *s == STRUCT_VAR => Some(t.clone()),
        _ => None,
    });
    let def = match def {
        Some(d) => d,
        None => return p.clone(),
    };
    let goals2: Vec<G> = goals
        .iter()
        .filter(|g| !matches!(g, G::Eq(T::V(s), _) if *s == STRUCT_VAR))
        .map(|g| subst_g(g, STRUCT_VAR, &def))
        .collect();
    let vars2: Vec<VarIx> = vars.iter().cloned().filter(|v| *v != STRUCT_VAR).collect();
    Program { nq: p.nq, defs: p.defs.clone(), body: vec![G::Fresh(vars2, goals2)] }
}

pub fn brute_force(p: &Program) -> Option<Expected> {
    let p = &inline_struct(p);
    let qterm = query_term(p)?;
    let vars: Vec<VarIx> = match p.body.as_slice() {
        [G::Fresh(vs, _)] => vs.clone(),
        _ => return None,
    };
    let doms = first_domains(p)?;
    for v in vars.iter() {
        if !doms.contains_key(v) {
            return None; // a variable without any domain: not well-formed for labeling
        }
    }
    let mut qvars = vec![];
    qterm.vars(&mut qvars);
    let hidden: Vec<VarIx> = vars.iter().cloned().filter(|v| !qvars.contains(v)).collect();
    let visible: Vec<VarIx> = vars.iter().cloned().filter(|v| qvars.contains(v)).collect();
    // DNF paths: enumerate by expanding every conde into one chosen clause
    let paths = dnf(&p.body);
    let mut multiset: BTreeMap<Val, u64> = BTreeMap::new();
    let mut tried = 0u64;
    let mut asg: BTreeMap<VarIx, i64> = BTreeMap::new();
    for path in paths.iter() {
        // visible assignment, then existence of a hidden witness
        let mut vis_idx = vec![0usize; visible.len()];
        'vis: loop {
            for (i, v) in visible.iter().enumerate() {
                asg.insert(*v, doms[v][vis_idx[i]]);
            }
            let mut hid_idx = vec![0usize; hidden.len()];
            let mut witness = false;
            'hid: loop {
                for (i, v) in hidden.iter().enumerate() {
                    asg.insert(*v, doms[v][hid_idx[i]]);
                }
                tried += 1;
                let mut ok = true;
                for g in path.iter() {
                    match count(g, &asg, 0) {
                        Some(0) => {
                            ok = false;
                            break;
                        }
                        Some(_) => {}
                        None => return None,
                    }
                }
                if ok {
                    witness = true;
                    break 'hid;
                }
                let mut k = 0;
                loop {
                    if k == hidden.len() {
                        break 'hid;
                    }
                    hid_idx[k] += 1;
                    if hid_idx[k] < doms[&hidden[k]].len() {
                        break;
                    }
                    hid_idx[k] = 0;
                    k += 1;
                }
            }
            if witness {
                let proj = eval_term(&qterm, &asg)?;
                *multiset.entry(proj).or_insert(0) += 1;
            }
            let mut k = 0;
            loop {
                if k == visible.len() {
                    break 'vis;
                }
                vis_idx[k] += 1;
                if vis_idx[k] < doms[&visible[k]].len() {
                    break;
                }
                vis_idx[k] = 0;
                k += 1;
            }
        }
    }
    Some(Expected { multiset, assignments_tried: tried })
}

/// Disjunctive normal form of a goal list: each path is a flat conjunction without conde.
fn dnf(gs: &[G]) -> Vec<Vec<G>> {
    let mut paths: Vec<Vec<G>> = vec![vec![]];
    for g in gs {
        let alts: Vec<Vec<G>> = match g {
            G::Conde(cs) => cs.iter().flat_map(|c| dnf(c)).collect(),
            G::Conj(inner) | G::Fresh(_, inner) => dnf(inner),
            other => vec![vec![other.clone()]],
        };
        let mut next = vec![];
        for p in paths.iter() {
            for a in alts.iter() {
                let mut q = p.clone();
                q.extend(a.iter().cloned());
                next.push(q);
            }
        }
        paths = next;
    }
    paths
}

pub fn val_of_answer(t: &T) -> Option<Val> {
    match t {
        T::I(i) => Some(Val::I(*i)),
        T::S(s) => Some(Val::S(s.clone())),
        T::B(b) => Some(Val::B(*b)),
        T::Nil => Some(Val::Nil),
        T::Cons(h, tl) => Some(Val::Cons(Box::new(val_of_answer(h)?), Box::new(val_of_answer(tl)?))),
        T::Cmp(k, a, b) => Some(Val::Cmp(*k, Box::new(val_of_answer(a)?), Box::new(val_of_answer(b)?))),
        T::V(_) | T::Any(_) => None,
    }
}

pub fn show_val(v: &Val) -> String {
    fn to_t(v: &Val) -> T {
        match v {
            Val::I(i) => T::I(*i),
            Val::S(s) => T::S(s.clone()),
            Val::B(b) => T::B(*b),
            Val::Nil => T::Nil,
            Val::Cons(h, t) => T::cons(to_t(h), to_t(t)),
            Val::Cmp(k, a, b) => T::cmp(*k, to_t(a), to_t(b)),
        }
    }
    to_t(v).show()
}
