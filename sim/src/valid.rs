//! Well-formedness of programs (scoping, arities, goal kinds) — used to filter shrink candidates
//! and as a self-check on the generators.
use crate::ast::*;

fn term_ok(t: &T, scope: &[VarIx]) -> bool {
    match t {
        T::V(v) => scope.contains(v),
        T::Cons(h, tl) | T::Cmp(_, h, tl) => term_ok(h, scope) && term_ok(tl, scope),
        T::Any(_) => false,
        _ => true,
    }
}

fn rel_arity(r: Rel) -> usize {
    match r {
        Rel::Member | Rel::Member1 | Rel::Permute | Rel::First | Rel::Rest => 2,
        Rel::Append | Rel::Rember | Rel::ConsR => 3,
        Rel::Empty | Rel::Distinct => 1,
        Rel::Always | Rel::Never | Rel::Succeed | Rel::Fail => 0,
    }
}

pub fn is_proper_list(t: &T) -> bool {
    match t {
        T::Nil => true,
        T::Cons(_, tl) => is_proper_list(tl),
        _ => false,
    }
}

fn fd_operand(t: &T) -> bool {
    matches!(t, T::V(_) | T::I(_))
}

fn goals_ok(gs: &[G], scope: &[VarIx], dfs: bool, p: &Program) -> bool {
    gs.iter().all(|g| goal_ok(g, scope, dfs, p))
}

pub fn goal_ok(g: &G, scope: &[VarIx], dfs: bool, p: &Program) -> bool {
    let t = |x: &T| term_ok(x, scope);
    match g {
        G::Succeed | G::Fail | G::UserTag(_) | G::Probe(_) | G::Observe(_) => true,
        G::Eq(a, b) | G::Neq(a, b) => t(a) && t(b),
        G::Conj(gs) | G::Closure(gs) => goals_ok(gs, scope, dfs, p),
        G::Conde(cs) => cs.iter().all(|c| goals_ok(c, scope, dfs, p)),
        G::Disj(a, b) => goal_ok(a, scope, dfs, p) && goal_ok(b, scope, dfs, p),
        G::Fresh(vs, gs) => {
            let mut s2 = scope.to_vec();
            s2.extend(vs.iter().cloned());
            goals_ok(gs, &s2, dfs, p)
        }
        G::Leaf(l) => t(&l.target) && l.answers.iter().all(|a| t(&a.value)),
        G::Call(r, args) => {
            args.len() == rel_arity(*r)
                && args.iter().all(t)
                && !(dfs && matches!(r, Rel::Always | Rel::Never))
        }
        G::CallDef(ix, args) => match p.defs.get(*ix as usize) {
            Some(d) => d.params.len() == args.len() && args.iter().all(t),
            None => false,
        },
        G::Conda(cs) | G::Condu(cs) => {
            !dfs && !cs.is_empty() && cs.iter().all(|c| !c.is_empty() && goals_ok(c, scope, false, p))
        }
        G::Onceo(gs) | G::Anyo(gs) => !dfs && goals_ok(gs, scope, false, p),
        G::Dfs(gs) => goals_ok(gs, scope, true, p),
        G::For(x, coll, gs) => {
            let mut s2 = scope.to_vec();
            s2.push(*x);
            coll.iter().all(t) && goals_ok(gs, &s2, dfs, p)
        }
        G::Project(vs, gs) => vs.iter().all(|v| scope.contains(v)) && goals_ok(gs, scope, dfs, p),
        G::Prim(_, a, b) => t(a) && t(b),
        G::Dom(x, vals) => {
            // strictly increasing: unsorted or duplicated value lists are C18's business
            t(x) && !vals.is_empty()
                && vals.windows(2).all(|w| w[0] < w[1])
                && (fd_operand(x) || is_proper_list(x))
        }
        G::DomRange(x, lo, hi) => t(x) && lo <= hi && (fd_operand(x) || is_proper_list(x)),
        G::Ltefd(a, b) | G::Ltfd(a, b) | G::Diseqfd(a, b) => {
            t(a) && t(b) && fd_operand(a) && fd_operand(b)
        }
        G::Plusfd(a, b, c) | G::Minusfd(a, b, c) | G::Timesfd(a, b, c) => {
            t(a) && t(b) && t(c) && fd_operand(a) && fd_operand(b) && fd_operand(c)
        }
        G::Plusz(a, b, c) | G::Timesz(a, b, c) => {
            t(a) && t(b) && t(c) && fd_operand(a) && fd_operand(b) && fd_operand(c)
        }
        G::Distinctfd(ts) => ts.iter().all(|x| t(x) && fd_operand(x)),
    }
}

pub fn program_ok(p: &Program) -> bool {
    let scope: Vec<VarIx> = (0..p.nq).collect();
    p.nq >= 1
        && goals_ok(&p.body, &scope, false, p)
        && p.defs.iter().all(|d| {
            // a def body must be usable from both goal kinds unless it is only called from BFS
            goals_ok(&d.body, &d.params, true, p)
        })
}

/// Every variable used as an operand of a finite-domain constraint is given a domain by a
/// domain goal that every branch executes (i.e. one that is not inside a disjunction).
pub fn fd_wellformed(p: &Program) -> bool {
    fn operands(g: &G, out: &mut Vec<VarIx>) {
        let mut add = |t: &T| t.vars(out);
        match g {
            G::Ltefd(a, b) | G::Ltfd(a, b) | G::Diseqfd(a, b) => {
                add(a);
                add(b);
            }
            G::Plusfd(a, b, c) | G::Minusfd(a, b, c) | G::Timesfd(a, b, c) => {
                add(a);
                add(b);
                add(c);
            }
            G::Distinctfd(ts) => {
                for t in ts {
                    add(t);
                }
            }
            _ => {}
        }
        for c in g.children() {
            operands(c, out);
        }
    }
    fn domains(gs: &[G], out: &mut Vec<VarIx>) {
        for g in gs {
            match g {
                G::Dom(t, _) | G::DomRange(t, _, _) => t.vars(out),
                G::Fresh(_, inner) | G::Conj(inner) => domains(inner, out),
                _ => {}
            }
        }
    }
    let mut used = vec![];
    for g in p.body.iter() {
        operands(g, &mut used);
    }
    let mut have = vec![];
    domains(&p.body, &mut have);
    used.iter().all(|v| have.contains(v))
}

/// Goals that exist only as interleaving goals.
pub fn has_bfs_only(p: &Program) -> bool {
    p.any(|g| {
        matches!(
            g,
            G::Conda(_) | G::Condu(_) | G::Onceo(_) | G::Anyo(_) | G::Call(Rel::Always, _) | G::Call(Rel::Never, _)
        )
    })
}
