//! Generator of pure tree programs: ==, !=, conj, conde, fresh over a tiny alphabet, so that
//! subsumption between disequalities and their interaction with later bindings is common.
use crate::ast::*;
use crate::rng::Rng;

#[derive(Clone, Debug)]
pub struct TreeOpts {
    pub max_q: u32,
    pub max_hidden: u32,
    pub max_goals: u32,
    pub allow_conde: bool,
    pub neq_bias: u32, // out of 10
}

impl TreeOpts {
    pub fn small() -> TreeOpts {
        TreeOpts { max_q: 2, max_hidden: 2, max_goals: 6, allow_conde: true, neq_bias: 5 }
    }
}

fn atom(w: &mut Rng) -> T {
    match w.below(4) {
        0 => T::I(0),
        1 => T::I(1),
        2 => T::S("a".into()),
        _ => T::I(0),
    }
}

fn leaf(w: &mut Rng, scope: &[VarIx]) -> T {
    if !scope.is_empty() && w.chance(3, 5) {
        T::V(*w.pick(scope))
    } else {
        atom(w)
    }
}

pub fn term(w: &mut Rng, scope: &[VarIx], depth: u32) -> T {
    if depth == 0 || w.chance(1, 2) {
        return leaf(w, scope);
    }
    if w.chance(1, 6) {
        // compound term (`#[compound] struct Pair(LTerm, LTerm)` / `Duo`)
        let kind = if w.chance(3, 4) { 0 } else { 1 };
        let a = term(w, scope, depth - 1);
        let b = if w.chance(1, 3) {
            // a compound directly inside a compound (its fields are walked by the compound's own
            // generated code, not by the list code)
            T::cmp(if w.chance(1, 2) { 0 } else { 1 }, leaf(w, scope), leaf(w, scope))
        } else {
            term(w, scope, depth - 1)
        };
        return T::cmp(kind, a, b);
    }
    let n = w.below(3);
    let items: Vec<T> = (0..n).map(|_| term(w, scope, depth - 1)).collect();
    if n > 0 && w.chance(1, 5) {
        T::improper(items, leaf(w, scope))
    } else {
        T::list(items)
    }
}

fn atomic_goal(w: &mut Rng, scope: &[VarIx], o: &TreeOpts) -> G {
    let a = if w.chance(2, 3) { leaf(w, scope) } else { term(w, scope, 1) };
    let b = term(w, scope, 2);
    let (a, b) = if w.chance(1, 2) { (a, b) } else { (b, a) };
    if (w.below(10) as u32) < o.neq_bias {
        G::Neq(a, b)
    } else {
        G::Eq(a, b)
    }
}

/// A family of related disequalities: a compound one, one of its components on its own (which
/// implies the compound one), an unrelated one, and sometimes the binding that decides one of them.
/// The store's normalisation (who is dropped as redundant, who survives) is only exercised when
/// such constraints meet in one store.
fn subsumption_family(w: &mut Rng, scope: &[VarIx]) -> Vec<G> {
    let v1 = *w.pick(scope);
    let v2 = *w.pick(scope);
    let v3 = *w.pick(scope);
    let (c1, c2, c3) = (atom(w), atom(w), atom(w));
    let mut out = vec![
        G::Neq(T::list(vec![T::V(v1), T::V(v2)]), T::list(vec![c1.clone(), c2.clone()])),
        G::Neq(T::V(v3), c3.clone()),
        G::Neq(T::V(v1), c1.clone()),
    ];
    match w.below(4) {
        0 => out.push(G::Eq(T::V(v3), if w.chance(1, 2) { c3 } else { atom(w) })),
        1 => out.push(G::Eq(T::V(v2), if w.chance(1, 2) { c2 } else { atom(w) })),
        2 => out.push(G::Neq(T::V(v2), c2)),
        _ => {}
    }
    if w.chance(1, 3) {
        w.shuffle(&mut out);
    }
    out
}

pub fn gen_program(w: &mut Rng, o: &TreeOpts) -> Program {
    let nq = 1 + w.below(o.max_q as usize) as u32;
    let nh = w.below(o.max_hidden as usize + 1) as u32;
    let hidden: Vec<VarIx> = (nq..nq + nh).collect();
    let mut scope: Vec<VarIx> = (0..nq).collect();
    scope.extend(hidden.iter().cloned());
    let n = 2 + w.below(o.max_goals as usize - 1);
    let mut goals: Vec<G> = (0..n).map(|_| atomic_goal(w, &scope, o)).collect();
    if o.neq_bias > 0 && scope.len() >= 2 && w.chance(1, 5) {
        goals.truncate(2);
        let at = w.below(goals.len() + 1);
        let fam = subsumption_family(w, &scope);
        for (i, g) in fam.into_iter().enumerate() {
            goals.insert(at + i, g);
        }
    }
    if o.allow_conde && goals.len() >= 3 && w.chance(1, 4) {
        let b = goals.pop().unwrap();
        let a = goals.pop().unwrap();
        let mut c1 = vec![a];
        let c2 = vec![b];
        if w.chance(1, 2) {
            c1.push(atomic_goal(w, &scope, o));
        }
        let mut clauses = vec![c1, c2];
        // sometimes three or four clauses, one of which may fail statically
        if w.chance(1, 3) {
            let extra = 1 + w.below(2);
            for _ in 0..extra {
                let mut c = vec![atomic_goal(w, &scope, o)];
                if w.chance(1, 5) {
                    c.push(G::Fail);
                }
                let at = w.below(clauses.len() + 1);
                clauses.insert(at, c);
            }
        }
        let at = w.below(goals.len() + 1);
        goals.insert(at, G::Conde(clauses));
    }
    let body = if hidden.is_empty() { goals } else { vec![G::Fresh(hidden, goals)] };
    Program { nq, defs: vec![], body }
}

/// Reverse the order of every conjunction (top level, fresh bodies, conde clauses).
pub fn reverse_conjunctions(p: &Program) -> Program {
    fn rev(gs: &[G]) -> Vec<G> {
        gs.iter().rev().map(rev_goal).collect()
    }
    fn rev_goal(g: &G) -> G {
        match g {
            G::Conj(gs) => G::Conj(rev(gs)),
            G::Fresh(vs, gs) => G::Fresh(vs.clone(), rev(gs)),
            G::Conde(cs) => G::Conde(cs.iter().map(|c| rev(c)).collect()),
            other => other.clone(),
        }
    }
    Program { nq: p.nq, defs: p.defs.clone(), body: rev(&p.body) }
}

/// A seeded permutation of every conjunction and clause list.
pub fn permute(p: &Program, w: &mut Rng, permute_clauses: bool) -> Program {
    fn perm(gs: &[G], w: &mut Rng, pc: bool) -> Vec<G> {
        let mut v: Vec<G> = gs.iter().map(|g| perm_goal(g, w, pc)).collect();
        w.shuffle(&mut v);
        v
    }
    fn perm_goal(g: &G, w: &mut Rng, pc: bool) -> G {
        match g {
            G::Conj(gs) => G::Conj(perm(gs, w, pc)),
            G::Fresh(vs, gs) => G::Fresh(vs.clone(), perm(gs, w, pc)),
            G::Conde(cs) => {
                let mut cs2: Vec<Vec<G>> = cs.iter().map(|c| perm(c, w, pc)).collect();
                if pc {
                    w.shuffle(&mut cs2);
                }
                G::Conde(cs2)
            }
            other => other.clone(),
        }
    }
    Program { nq: p.nq, defs: p.defs.clone(), body: perm(&p.body, w, permute_clauses) }
}
