//! Instrumented `User` type used for every simulated query. It is cloned with the search
//! state, so everything in it is a per-branch history.
use proto_vulcan::engine::Engine;
use proto_vulcan::state::constraint::Constraint;
use proto_vulcan::state::{SMap, SResult, State};
use proto_vulcan::stream::StreamEngine;
use proto_vulcan::user::User;
use std::rc::Rc;

pub type Eng = StreamEngine<SimUser>;
pub type PState = State<SimUser, Eng>;
pub type PTerm = proto_vulcan::lterm::LTerm<SimUser, Eng>;
pub type PGoal = proto_vulcan::goal::Goal<SimUser, Eng>;
pub type PDfsGoal = proto_vulcan::goal::DFSGoal<SimUser, Eng>;
pub type PStream = proto_vulcan::stream::Stream<SimUser, Eng>;
pub type PLazyStream = proto_vulcan::stream::LazyStream<SimUser, Eng>;
pub type PSolver = proto_vulcan::solver::Solver<SimUser, Eng>;

#[derive(Clone, Debug, Default)]
pub struct SimUser {
    /// number of `with_constraint` hook calls in this state's history
    pub with_calls: u32,
    /// number of `take_constraint` hook calls in this state's history
    pub take_calls: u32,
    /// number of `process_extension` hook calls
    pub ext_calls: u32,
    /// total number of bindings passed to `process_extension`
    pub ext_bindings: u32,
    /// size of the substitution after the last `process_extension` call minus bindings seen
    /// (used to check that extensions are exactly the new bindings)
    pub ext_violation: Option<String>,
    /// tags appended by `UserTag` goals along this branch
    pub path: Vec<u32>,
    /// first invariant violation observed by a probe in this branch (C22)
    pub probe_violation: Option<String>,
    pub probes_run: u32,
}

impl User for SimUser {
    type UserTerm = ();
    type UserContext = ();

    fn process_extension<E: Engine<Self>>(
        mut state: State<Self, E>,
        extension: &SMap<Self, E>,
    ) -> SResult<Self, E> {
        state.user_state.ext_calls += 1;
        let mut n = 0u32;
        for (k, v) in extension.iter() {
            n += 1;
            // every binding of the extension must be present, as is, in the substitution
            if state.user_state.ext_violation.is_none() {
                match state.smap_ref().get(k) {
                    Some(bound) if bound == v => {}
                    Some(_) => {
                        state.user_state.ext_violation =
                            Some("extension binding differs from the substitution".to_string())
                    }
                    None => {
                        state.user_state.ext_violation =
                            Some("extension binding missing from the substitution".to_string())
                    }
                }
            }
        }
        state.user_state.ext_bindings += n;
        Ok(state)
    }

    fn with_constraint<E: Engine<Self>>(
        state: &mut State<Self, E>,
        _constraint: &Rc<dyn Constraint<Self, E>>,
    ) {
        state.user_state.with_calls += 1;
    }

    fn take_constraint<E: Engine<Self>>(
        state: &mut State<Self, E>,
        _constraint: &Rc<dyn Constraint<Self, E>>,
    ) {
        state.user_state.take_calls += 1;
    }
}
