//! pvsim-threads — C15, thread part: the process-global variable-id counter under simulated
//! thread schedules (shuttle). Built against a shadow manifest of /repo with hook H6 on, so the
//! counter's atomic is shuttle's and every access to it is a scheduling point.
//!
//!   pvsim-threads run --seed S --iterations N --out summary.json --replay-dir DIR
//!   pvsim-threads replay <schedule-file>
use proto_vulcan::lterm::{LTermInner, VarID};
use proto_vulcan::prelude::*;
use proto_vulcan::relation::member;
use shuttle::scheduler::{PctScheduler, RandomScheduler};
use shuttle::{thread, Config, FailurePersistence, Runner};
use std::collections::HashSet;
use std::sync::atomic::{AtomicU64, Ordering};

static EXECUTIONS: AtomicU64 = AtomicU64::new(0);
static CROSS_THREAD_DUPLICATES: AtomicU64 = AtomicU64::new(0);
static VARS_CREATED: AtomicU64 = AtomicU64::new(0);

fn var_id(t: &LTerm) -> VarID {
    match t.as_ref() {
        LTermInner::Var(id, _) => *id,
        _ => unreachable!(),
    }
}

/// One simulated execution: 2-4 threads, each creating variables and running a query whose
/// answers are only right if its variables are distinct.
fn scenario() {
    use shuttle::rand::Rng;
    let mut rng = shuttle::rand::thread_rng();
    let nthreads = 2 + (rng.gen::<u8>() % 3) as usize;
    let per_thread = 2 + (rng.gen::<u8>() % 4) as usize;
    let mut handles = vec![];
    for _ in 0..nthreads {
        handles.push(thread::spawn(move || {
            let mut ids: Vec<VarID> = Vec::new();
            for i in 0..per_thread {
                let v: LTerm = LTerm::var("x");
                ids.push(var_id(&v));
                if i % 2 == 0 {
                    thread::sleep(std::time::Duration::from_millis(0));
                }
            }
            // x and y must be different variables and q a third one
            let query = proto_vulcan_query!(|q| {
                |x, y| {
                    member(x, [1, 2]),
                    member(y, [3, 4]),
                    q == [x, y],
                }
            });
            let mut answers: Vec<String> = query.run().map(|r| format!("{}", r.q)).collect();
            answers.sort();
            (ids, answers)
        }));
    }
    let expected: Vec<String> = vec!["[1, 3]".into(), "[1, 4]".into(), "[2, 3]".into(), "[2, 4]".into()];
    let mut all: HashSet<VarID> = HashSet::new();
    let mut cross = 0u64;
    for h in handles {
        let (ids, answers) = h.join().unwrap();
        VARS_CREATED.fetch_add(ids.len() as u64, Ordering::Relaxed);
        let own: HashSet<VarID> = ids.iter().cloned().collect();
        assert_eq!(
            own.len(),
            ids.len(),
            "C15: one thread was handed the same variable id twice: {:?}",
            ids
        );
        assert_eq!(answers, expected, "C15: query answers differ from the single-threaded answers");
        for id in ids {
            if !all.insert(id) {
                cross += 1;
            }
        }
    }
    CROSS_THREAD_DUPLICATES.fetch_add(cross, Ordering::Relaxed);
    EXECUTIONS.fetch_add(1, Ordering::Relaxed);
}

fn arg_after(args: &[String], flag: &str) -> Option<String> {
    args.iter().position(|a| a == flag).and_then(|i| args.get(i + 1).cloned())
}

fn newest_file(dir: &str) -> Option<String> {
    let mut best: Option<(std::time::SystemTime, String)> = None;
    for e in std::fs::read_dir(dir).ok()? {
        let e = e.ok()?;
        let m = e.metadata().ok()?.modified().ok()?;
        let p = e.path().to_string_lossy().to_string();
        if best.as_ref().map(|b| m > b.0).unwrap_or(true) {
            best = Some((m, p));
        }
    }
    best.map(|b| b.1)
}

fn main() {
    // failures are reported by this program itself; keep panic messages and backtraces quiet
    std::panic::set_hook(Box::new(|_| {}));
    let args: Vec<String> = std::env::args().collect();
    match args.get(1).map(|s| s.as_str()) {
        Some("replay") => {
            let path = args.get(2).expect("schedule file");
            let r = std::panic::catch_unwind(|| shuttle::replay_from_file(scenario, path));
            match r {
                Ok(()) => {
                    println!("replay of {} passes on this tree", path);
                    std::process::exit(0)
                }
                Err(_) => {
                    println!("VIOLATION property=C15 replay={}", path);
                    std::process::exit(1)
                }
            }
        }
        Some("run") => {
            let seed: u64 = arg_after(&args, "--seed").and_then(|s| s.parse().ok()).unwrap_or(20260921);
            let iterations: usize = arg_after(&args, "--iterations").and_then(|s| s.parse().ok()).unwrap_or(20_000);
            let out = arg_after(&args, "--out").unwrap_or_else(|| "threads-summary.json".into());
            let dir = arg_after(&args, "--replay-dir").unwrap_or_else(|| ".".into());
            let _ = std::fs::create_dir_all(&dir);
            let started = std::time::Instant::now();
            let mut violation: Option<serde_json::Value> = None;
            // half of the budget with the uniformly random scheduler, half with PCT (depth 3)
            for (name, which) in [("random", 0), ("pct", 1)] {
                let mut cfg = Config::new();
                cfg.failure_persistence = FailurePersistence::File(Some(dir.clone().into()));
                let n = iterations / 2;
                let res = std::panic::catch_unwind(move || {
                    if which == 0 {
                        Runner::new(RandomScheduler::new_from_seed(seed, n), cfg).run(scenario);
                    } else {
                        Runner::new(PctScheduler::new_from_seed(seed, 3, n), cfg).run(scenario);
                    }
                });
                if let Err(p) = res {
                    let msg = if let Some(s) = p.downcast_ref::<String>() {
                        s.clone()
                    } else if let Some(s) = p.downcast_ref::<&str>() {
                        s.to_string()
                    } else {
                        "<panic>".to_string()
                    };
                    let file = newest_file(&dir);
                    violation = Some(serde_json::json!({"scheduler": name, "message": msg, "replay": file}));
                    break;
                }
            }
            let summary = serde_json::json!({
                "seed": seed,
                "planned_executions": iterations,
                "executions": EXECUTIONS.load(Ordering::Relaxed),
                "variables_created": VARS_CREATED.load(Ordering::Relaxed),
                "cross_thread_duplicate_ids": CROSS_THREAD_DUPLICATES.load(Ordering::Relaxed),
                "schedulers": ["random", "pct(depth 3)"],
                "wall_s": started.elapsed().as_secs_f64(),
                "violation": violation,
            });
            std::fs::write(&out, serde_json::to_string_pretty(&summary).unwrap()).unwrap();
            if let Some(v) = summary.get("violation").filter(|v| !v.is_null()) {
                println!(
                    "VIOLATION property=C15 replay={}",
                    v["replay"].as_str().unwrap_or("<schedule not persisted>")
                );
                println!("  class: thread-schedule");
                println!("  detail: {}", v["message"].as_str().unwrap_or("").lines().next().unwrap_or(""));
                std::process::exit(1);
            }
            println!(
                "C15 threads: seed={} executions={} wall={:.1}s",
                seed,
                summary["executions"],
                started.elapsed().as_secs_f64()
            );
        }
        _ => {
            eprintln!("usage: pvsim-threads run|replay ...");
            std::process::exit(2);
        }
    }
}
